/-
Property C10 for the modelled classifier, for ALL histories — the last hypothesis of
`C10.C10_model` ("`classify()` does not raise on the collections met") is discharged.

* `editList_uniform`  — every public edit with synchronised arguments keeps the collection
  *uniform*: all strings synchronised (`PS.WF`) and of ONE length (the collection pads);
* `getSubgraphs_total` — on a uniform collection `get_subgraphs()` does not raise and every
  component is again a uniform list (its members are members of the collection);
* `build_total` (Proofs/C10TotalQueue.lean) — `MorphFactory.build` does not raise on a uniform
  list: every exception of the reduction pipeline is caught inside `buildLoop` (a pure function,
  as the Python's `except … / except Exception` arms), and the queue construction outside of it
  raises only through `commutesWith` on unequal lengths;
* `build_strict_adequate` — the model writes Python's `list.remove(x)` / `list.index(x)` (which
  raise `ValueError` on an absent `x`) as non-raising list functions; in a copy of the queue
  construction where they raise as in Python the result is the same on every uniform list, so
  the totality is not an artefact of the lenient primitives;
* `Kmodel_total`      — hence `classify()` of the model never raises on a uniform collection;
* `C10_model_total`   — `C10_model` without the hypothesis `hno`.
-/
import PauLieVerif.Properties.C10Model
import PauLieVerif.Properties.C14
import PauLieVerif.Proofs.C10TotalQueue
import PauLieVerif.Proofs.C10TotalStrict

namespace PauLie
namespace C10
open Collection
open C14 (Uniform)

/-- all strings synchronised and of one common length (what a `PauliStringCollection` holds) -/
def UniformWF (g : List PS) : Prop := ∃ n, Uniform n g

theorem UniformWF.allWF {g : List PS} (h : UniformWF g) : AllWF g := by
  obtain ⟨n, hn⟩ := h
  exact fun x hx => (hn x hx).1

/-! ### every edit keeps the collection uniform -/

theorem expand_len {p p' : PS} {n : Int} (hp : p.WF) (h : p.expand n = .ok p') :
    p'.WF ∧ p'.len = n.toNat := by
  refine ⟨expand_wf hp h, ?_⟩
  unfold PS.expand PS.identity at h
  split at h
  · cases h
  · next hlt =>
    simp only [bind, Except.bind, pure, Except.pure] at h
    cases h
    have := hp.2.2
    simp only [PS.len, PS.tensor, PS.ofBits, List.length_append, List.length_replicate] at hlt ⊢
    omega

theorem mapM_ok_mem {α β : Type} (f : α → Except Err β) : ∀ {l : List α} {r : List β},
    l.mapM f = .ok r → ∀ y ∈ r, ∃ x ∈ l, f x = .ok y
  | [], r, h => by
    simp [pure, Except.pure] at h; subst h; intro y hy; cases hy
  | a :: t, r, h => by
    rw [List.mapM_cons] at h
    cases ha : f a with
    | error e => simp [ha, bind, Except.bind] at h
    | ok b =>
      cases ht : t.mapM f with
      | error e => simp [ha, ht, bind, Except.bind] at h
      | ok r' =>
        simp [ha, ht, bind, Except.bind, pure, Except.pure] at h
        subst h
        intro y hy
        rcases List.mem_cons.mp hy with rfl | hy
        · exact ⟨a, by simp, ha⟩
        · obtain ⟨x, hx, hfx⟩ := mapM_ok_mem f ht y hy
          exact ⟨x, by simp [hx], hfx⟩

theorem expandAll_uniform {gens l : List PS} {n : Int} (hw : AllWF gens)
    (h : expandAll gens n = .ok l) : Uniform n.toNat l := by
  intro y hy
  obtain ⟨x, hx, hfx⟩ := mapM_ok_mem _ h y hy
  exact expand_len (hw x hx) hfx

theorem longest_uniform {n : Nat} {gens : List PS} (hg : Uniform n gens) (hne : gens ≠ []) :
    longest gens = n := by
  obtain ⟨_, h2, h3⟩ := C14.foldl_max_spec gens 0
  unfold longest
  rcases h3 with h3 | ⟨g, hgm, h3⟩
  · cases gens with
    | nil => exact absurd rfl hne
    | cons a t =>
      have := h2 a (by simp)
      have := (hg a (by simp)).2
      omega
  · rw [← h3]; exact (hg g hgm).2

/-- `_processing`: the (possibly padded) list and the (possibly padded) new string have one length -/
theorem processing_uniform {n : Nat} {gens l : List PS} {p p' : PS} (hg : Uniform n gens)
    (hp : p.WF) (h : processing gens p = .ok (l, p')) :
    ∃ m, Uniform m l ∧ p'.WF ∧ p'.len = m := by
  have hw : AllWF gens := fun x hx => (hg x hx).1
  unfold processing at h
  split at h
  · next he =>
    cases h
    have : gens = [] := by simpa using he
    subst this
    exact ⟨p.len, C10Total.uniform_nil _, hp, rfl⟩
  · next he =>
    have hne : gens ≠ [] := by intro e; subst e; simp at he
    have hl := longest_uniform hg hne
    simp only at h
    split at h
    · cases hx : p.expand ↑(longest gens) with
      | error e => simp [hx, bind, Except.bind] at h
      | ok q =>
        simp [hx, bind, Except.bind, pure, Except.pure] at h
        obtain ⟨rfl, rfl⟩ := h
        obtain ⟨h1, h2⟩ := expand_len hp hx
        exact ⟨n, hg, h1, by rw [h2, hl]; rfl⟩
    · split at h
      · cases hx : expandAll gens ↑p.len with
        | error e => simp [hx, bind, Except.bind] at h
        | ok q =>
          simp [hx, bind, Except.bind, pure, Except.pure] at h
          obtain ⟨rfl, rfl⟩ := h
          exact ⟨p.len, by simpa using expandAll_uniform hw hx, hp, rfl⟩
      · next h1 h2 =>
        cases h
        exact ⟨n, hg, hp, by omega⟩

theorem uniform_set {n : Nat} {l : List PS} {k : Nat} {q : PS} (hl : Uniform n l)
    (hq : q.WF ∧ q.len = n) : Uniform n (l.set k q) := by
  intro x hx
  rcases List.mem_or_eq_of_mem_set hx with h | h
  · exact hl x h
  · subst h; exact hq

/-- **every public edit with synchronised arguments keeps all strings synchronised and of one
length** (the invariant of a `PauliStringCollection`) -/
theorem editList_uniform (g : List PS) (op : Op) (hg : UniformWF g) (hop : OpWF op) :
    UniformWF (editList g op).1 := by
  obtain ⟨n, hn⟩ := hg
  cases op with
  | append p =>
    simp only [editList]
    cases h : processing g p with
    | error e => exact ⟨n, hn⟩
    | ok r =>
      obtain ⟨l, p'⟩ := r
      obtain ⟨m, hl, hp'⟩ := processing_uniform hn hop h
      simp only
      split
      · exact ⟨m, hl⟩
      · exact ⟨m, C10Total.uniform_append hl (C10Total.uniform_single hp')⟩
  | insert i p =>
    simp only [editList]
    cases h : processing g p with
    | error e => exact ⟨n, hn⟩
    | ok r =>
      obtain ⟨l, p'⟩ := r
      obtain ⟨m, hl, hp'⟩ := processing_uniform hn hop h
      simp only
      split
      · exact ⟨m, hl⟩
      · refine ⟨m, ?_⟩
        intro x hx
        unfold pyInsert at hx
        simp only [List.mem_append, List.mem_cons] at hx
        rcases hx with hx | rfl | hx
        · exact hl x (List.mem_of_mem_take hx)
        · exact hp'
        · exact hl x (List.mem_of_mem_drop hx)
  | remove p =>
    simp only [editList]
    split
    · unfold removeFirst
      split
      · exact ⟨n, fun x hx => hn x (List.mem_of_mem_eraseIdx hx)⟩
      · exact ⟨n, hn⟩
    · exact ⟨n, hn⟩
  | delitem i =>
    simp only [editList]
    split
    · exact ⟨n, fun x hx => hn x (List.mem_of_mem_eraseIdx hx)⟩
    · exact ⟨n, hn⟩
  | replace p q =>
    simp only [editList]
    split
    · exact ⟨n, hn⟩
    · cases h : processing g q.copy with
      | error e => exact ⟨n, hn⟩
      | ok r =>
        obtain ⟨l, q'⟩ := r
        obtain ⟨m, hl, hq'⟩ := processing_uniform hn (wf_copy hop) h
        exact ⟨m, uniform_set hl hq'⟩
  | contract p q =>
    simp only [editList]
    cases hm : p.multiply q with
    | error e => exact ⟨n, hn⟩
    | ok r =>
      simp only
      split
      · exact ⟨n, hn⟩
      · have hr : r.WF := by
          unfold PS.multiply PS.xorBits at hm
          by_cases hl : p.bits.length = q.bits.length
          · simp [hl, bind, Except.bind, pure, Except.pure] at hm
            subst hm
            exact C18.wf_ofBits' _ (by simp [hl]; exact hop.2.2.2)
          · simp [hl, bind, Except.bind, throw, throwThe, MonadExceptOf.throw] at hm
        cases h : processing g r.copy with
        | error e => exact ⟨n, hn⟩
        | ok rr =>
          obtain ⟨l, r'⟩ := rr
          obtain ⟨m, hl, hr'⟩ := processing_uniform hn (wf_copy hr) h
          exact ⟨m, uniform_set hl hr'⟩
  | expand k =>
    simp only [editList]
    cases h : expandAll g k with
    | error e => exact ⟨n, hn⟩
    | ok l => exact ⟨k.toNat, expandAll_uniform (fun x hx => (hn x hx).1) h⟩
  | sort =>
    simp only [editList, sortGens]
    exact ⟨n, fun x hx => hn x ((List.mergeSort_perm _ _).mem_iff.mp hx)⟩
  | copy =>
    simp only [editList]
    obtain ⟨h1, h2, _⟩ := C14.collInit_uniform g (fun x hx => (hn x hx).1)
    rw [h1]
    exact ⟨_, h2⟩

/-- the constructor `PauliStringCollection(strings)` pads: whatever synchronised strings it is
given, the collection it builds is uniform -/
theorem collInit_uniformWF {g l : List PS} (hg : AllWF g) (h : Graph.collInit g = .ok l) :
    UniformWF l := by
  obtain ⟨h1, h2, _⟩ := C14.collInit_uniform g hg
  rw [h1] at h
  cases h
  exact ⟨_, h2⟩

/-! ### `classify()` of the model never raises on a uniform collection -/

/-- **`get_subgraphs()` is total on a uniform collection**, and every component is a uniform list -/
theorem getSubgraphs_total {n : Nat} {g : List PS} (hg : Uniform n g) :
    ∃ subs, Graph.getSubgraphs g = .ok subs ∧ ∀ sub ∈ subs, Uniform n sub := by
  obtain ⟨cs, h, _, h3, _⟩ := C14.C14_subgraphs_partition hg
  exact ⟨cs, h, fun sub hs x hx => hg x ((h3 sub hs).2.2 x hx)⟩

/-- **`MorphFactory.build` is total on a uniform list** (restated from Proofs/C10TotalQueue.lean) -/
theorem build_total {n : Nat} {sub : List PS} (h : Uniform n sub) :
    ∃ r, Morph.build sub = .ok r := C10Total.build_total h

/-- **the lenient list primitives of the model are adequate.**  `C10Total.buildS` is `build` over a
copy of `_get_queue` / `_append_to_queue` in which `list.remove(x)` and `list.index(x)` raise
`ValueError` when `x` is absent, as in Python (the model's `removeFirst` / `| none => pure ()`
leave the list alone).  On a uniform list both compute the same value and neither raises: the
removed / indexed string is always present (the strings anticommuting with the chosen one form a
sublist of what is left after removing it; the members of `anti_commutates` stay in the queue). -/
theorem build_strict_adequate {n : Nat} {sub : List PS} (h : Uniform n sub) :
    C10Total.buildS sub = Morph.build sub ∧ ∃ r, C10Total.buildS sub = .ok r :=
  ⟨C10Total.buildS_eq h, C10Total.buildS_total h⟩

theorem Kmodel_go_total {n : Nat} : ∀ (subs : List (List PS)) (acc : Cls),
    (∀ sub ∈ subs, Uniform n sub) → (Kmodel.go acc subs).2 = none
  | [], _, _ => rfl
  | sub :: rest, acc, h => by
    obtain ⟨r, hr⟩ := build_total (h sub (by simp))
    unfold Kmodel.go
    rw [hr]
    exact Kmodel_go_total rest _ (fun s hs => h s (by simp [hs]))

/-- **`classify()` of the model never raises on a collection of synchronised strings of one
length.** -/
theorem Kmodel_total (g : List PS) (hg : UniformWF g) : (Kmodel g).2 = none := by
  obtain ⟨n, hn⟩ := hg
  obtain ⟨subs, h, hsub⟩ := getSubgraphs_total hn
  unfold Kmodel
  rw [h]
  exact Kmodel_go_total subs [] hsub

/-- **C10 for the modelled classifier, every history, no hypothesis on the classifier.**
Start from any collection (all strings synchronised and of one length, as the constructor
leaves them); along every finite sequence of public edits (append, insert, remove, delete by
index, replace, contract, expand, sort, copy — with synchronised arguments) interleaved with
any queries, the generators are those of the plain list edits and every answer is the answer
of a freshly built collection holding the same strings. -/
theorem C10_model_total {R : Type}
    (evs : List (Event Cls R)) (hev : EventsOK OpWF evs) (g : List PS) (hg : UniformWF g) :
    (runEvents Kmodel (fresh g) evs).1.gens = (specEvents Kmodel g evs).1 ∧
    (runEvents Kmodel (fresh g) evs).2 = (specEvents Kmodel g evs).2 :=
  let h := C10_history_on UniformWF OpWF Kmodel (fun g op hg hop => editList_uniform g op hg hop)
    (fun g hg => Kmodel_sort g hg.allWF) Kmodel_total evs hev (fresh g) hg (Or.inl rfl)
  ⟨h.1, h.2.1⟩

/-- the same for a collection constructed from ANY synchronised strings (the constructor pads
them to one length first) -/
theorem C10_model_total_init {R : Type}
    (evs : List (Event Cls R)) (hev : EventsOK OpWF evs) (g0 g : List PS) (hg0 : AllWF g0)
    (hinit : Graph.collInit g0 = .ok g) :
    (runEvents Kmodel (fresh g) evs).1.gens = (specEvents Kmodel g evs).1 ∧
    (runEvents Kmodel (fresh g) evs).2 = (specEvents Kmodel g evs).2 :=
  C10_model_total evs hev g (collInit_uniformWF hg0 hinit)

/-! ### non-vacuity -/

/-- `[XX, ZI, IZ]` is a uniform collection, so `classify()` of the model does not raise on it -/
example : UniformWF [PS.ofLetters [.X, .X], PS.ofLetters [.Z, .I], PS.ofLetters [.I, .Z]] :=
  ⟨2, by decide⟩

example : (Kmodel [PS.ofLetters [.X, .X], PS.ofLetters [.Z, .I], PS.ofLetters [.I, .Z]]).2 = none :=
  Kmodel_total _ ⟨2, by decide⟩

/-- a history covered by `C10_model_total`: query, append a LONGER string (the collection pads),
query, sort (keeps the cache), query, contract, query — with no side condition on the classifier -/
example (q : Query Cls Nat) :
    let g := [PS.ofLetters [.X, .X], PS.ofLetters [.Z, .I], PS.ofLetters [.I, .Z]]
    let evs : List (Event Cls Nat) :=
      [.query q, .edit (.append (PS.ofLetters [.X, .Y, .Z])), .query q, .edit .sort, .query q,
       .edit (.contract (PS.ofLetters [.X, .X, .I]) (PS.ofLetters [.Z, .I, .I])), .query q]
    (runEvents Kmodel (fresh g) evs).2 = (specEvents Kmodel g evs).2 := by
  intro g evs
  have hev : EventsOK OpWF evs := by
    simp only [evs, EventsOK, OpWF]
    decide
  exact (C10_model_total evs hev g ⟨2, by decide⟩).2

end C10
end PauLie
