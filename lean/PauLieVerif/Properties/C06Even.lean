/-
Property C06, a POSITIVE part for even `k` (model of the search):

  "For every non-identity Pauli string of length N>=3 and every left-block size
   2<=k<N, compilation terminates and returns a sequence instead of raising."

* `left_graph_even_connected` — for EVERY even `k` the walk graph of `left_a_minimal(k) = {X_i, Z_i, Z…Z}`
  (multiply by a generator that anticommutes with the current string) is connected on the `4^k - 1`
  non-identity left strings (for odd `k` it has two components, `left_search_odd_obstruction`);
* `left_search_even_returns` — hence `left_map_over_a(X_1, V, left_a_minimal(k))` returns for every `V ≠ I`;
* `C06_holds_even_wI` — hence C06 (and C05) HOLD on the targets `V ⊗ I…I`, `V ≠ I`, for every `N` and every even
  `2 ≤ k < N`: the model of `compile_target` returns a sequence, and it is `Valid`;
* `C06_holds_even_single` — likewise on the targets `V ⊗ X_j`, `V ⊗ Z_j` with `V ≠ I` (first verified candidate of the
  branch `V ≠ I`).
The raises that do occur at even `k` (`C06_refuted_even_k`) are therefore never in the `W = I` branch nor for a
single-site right block under `V ≠ I`; they come from right blocks with ≥ 2 factors and from `V = I`, where a search
STARTS at the fallback left factor of a vanishing commutator.
-/
import PauLieVerif.Proofs.CompilerEvenSingle
import PauLieVerif.Properties.C05Valid
import PauLieVerif.Properties.C06Total

namespace PauLie
namespace C06

open Compiler CompilerSearch

/-- **the left walk graph is connected for even `k`** (every even `k`, any two non-identity texts of length `k`) -/
theorem left_graph_even_connected (k : ℕ) (heven : k % 2 = 0) (p q : List Letter) (hp : p.length = k)
    (hq : q.length = k) (hpn : p ≠ List.replicate k Letter.I) (hqn : q ≠ List.replicate k Letter.I) :
    ∃ l, Walk (aset k) (PS.ofLetters p) l (PS.ofLetters q) := by
  have hN : ∀ (x : List Letter), x ≠ List.replicate x.length Letter.I → hasN x = true := by
    intro x
    induction x with
    | nil => intro h; exact absurd rfl h
    | cons c x ih =>
      intro h
      cases c with
      | I =>
        simp only [hasN, Bool.or_eq_true]
        right; apply ih; intro hx; apply h
        simp only [List.length_cons, List.replicate_succ]; rw [← hx]
      | X => rfl
      | Y => rfl
      | Z => rfl
  exact even_connected k heven p q hp hq (hN p (by rw [hp]; exact hpn)) (hN q (by rw [hq]; exact hqn))

/-- **the left search from `X_1` returns for even `k`** (every even `k ≥ 2`, every non-identity goal) -/
theorem left_search_even_returns (k : ℕ) (hk : 2 ≤ k) (heven : k % 2 = 0) (v : List Letter) (hv : v.length = k)
    (hvn : v ≠ List.replicate k Letter.I) :
    ∃ path, leftMapOverA (PS.ofLetters (C07.single k 0 .X)) (PS.ofLetters v) (aset k) = .ok path := by
  obtain ⟨l, hl⟩ := left_graph_even_connected k heven (C07.single k 0 .X) v (C07.length_single ..) hv
    (by
      intro h
      have := congrArg (fun t => t.getD 0 Letter.I) h
      obtain ⟨k', rfl⟩ : ∃ k', k = k' + 1 := ⟨k - 1, by omega⟩
      simp [C07.single, List.replicate_succ] at this) hvn
  exact ((left_search_decides _ _ _ k (aset_wf (X0_mem_aset k (by omega))) (fun a ha => aset_wf ha)).1).mpr
    ⟨l, _, hl, rfl⟩

/-- non-vacuity, against a kernel-evaluated run: `k = 2`, goal `YZ` -/
example : ∃ path, leftMapOverA (PS.ofLetters [.X, .I]) (PS.ofLetters [.Y, .Z]) (aset 2) = .ok path :=
  left_search_even_returns 2 (by decide) (by decide) [.Y, .Z] rfl (by decide)

/-- **C06 and C05 hold on `V ⊗ I…I` for even `k`** (every `N`, every even `2 ≤ k < N`, every well-formed target
with identity right block and non-identity left block): the model of `compile_target` returns a sequence
(through the verified return of the `W = I` branch), and the sequence is `Valid` -/
theorem C06_holds_even_wI (N k : ℕ) (t : PS) (ht : t.WF) (hN : t.len = N) (hk : 2 ≤ k) (hkN : k < N)
    (heven : k % 2 = 0)
    (hW : (t.getSubstring (k : Int) ((N : Int) - (k : Int))).isIdentity = true)
    (hV : (t.getSubstring 0 (k : Int)).isIdentity = false) :
    ∃ s, compileTarget t (k : Int) = .ok s ∧ C05.Valid N k t s := by
  obtain ⟨s, hs⟩ := compileTarget_even_wI_returns t k N ht hN hk hkN heven hW hV
  have h : compileTarget t (k : Int) = .ok s := by
    unfold compileTarget
    rw [hs]
    rfl
  exact ⟨s, h, C05.C05_wI_valid N k t ht hN hk hkN hW s h⟩

/-- non-vacuity: `IXI`, `k = 2` -/
example : ∃ s, compileTarget (PS.ofLetters [.I, .X, .I]) 2 = .ok s ∧ C05.Valid 3 2 (PS.ofLetters [.I, .X, .I]) s :=
  C06_holds_even_wI 3 2 _ (by decide) (by decide) (by decide) (by decide) (by decide) (by decide) (by decide)

/-- **C06 and C05 hold on `V ⊗ X_j`, `V ⊗ Z_j` for even `k`** (every `N`, every even `2 ≤ k < N`, every well-formed target
whose right block is a single `X` or `Z` and whose left block is not the identity): the model of `compile_target`
returns a sequence (first verified candidate of the branch `V ≠ I`), and the sequence is `Valid` -/
theorem C06_holds_even_single (N k j : ℕ) (l : Letter) (t : PS) (ht : t.WF) (hN : t.len = N) (hk : 2 ≤ k) (hkN : k < N)
    (heven : k % 2 = 0) (hj : j < N - k) (hl : l = Letter.X ∨ l = Letter.Z)
    (hW : t.letters.drop k = C07.single (N - k) j l)
    (hV : (t.getSubstring 0 (k : Int)).isIdentity = false) :
    ∃ s, compileTarget t (k : Int) = .ok s ∧ C05.Valid N k t s := by
  obtain ⟨s, hs⟩ := compileTarget_even_single_returns t k N j l ht hN hk hkN heven hj hl hW hV
  have h : compileTarget t (k : Int) = .ok s := by
    unfold compileTarget
    rw [hs]
    rfl
  exact ⟨s, h, C05.C05_verified_return_valid N k t ht hN hk hkN _ s hs rfl⟩

/-- non-vacuity: `XXZ`, `k = 2` (the run shown in `Properties/C05Search.lean`) -/
example : ∃ s, compileTarget (PS.ofLetters [.X, .X, .Z]) 2 = .ok s ∧ C05.Valid 3 2 (PS.ofLetters [.X, .X, .Z]) s :=
  C06_holds_even_single 3 2 0 .Z _ (by decide) (by decide) (by decide) (by decide) (by decide) (by decide)
    (Or.inr rfl) (by decide) (by decide)

end C06
end PauLie
