/-
Property C19 (two-local reference table): more rows whose closure is known in CLOSED FORM for every n,
with the dimension clause of the row:

    a16 (`XY`,`YX`,`YZ`,`ZY`)  n ≥ 3   row `so(2^n)`                  closure = strings with an odd number of `Y`
    a11 (`XY`,`YX`,`YZ`)       n ≥ 4   row `so(2^n)`                  the same set   (at n = 3 the row is wrong)
    a15 (`XX`,`XY`,`XZ`)       n ≥ 3   row `su(2^(n−1)) + su(2^(n−1))`     closure = `{I,X} ⊗ (non-identity on the rest)`
    b4  (a15 + all single-site) n ≥ 3  row `su(2^(n−1)) + su(2^(n−1)) + u(1)`   the same set and `X I … I`
    a13 (`XX`,`YY`,`YZ`)       n ≥ 3   row `su(2^(n−1)) + su(2^(n−1))`     closure = strings commuting with `X…X`, except `I…I`, `X…X`
    a20 (`XX`,`YY`,`ZZ`,`ZY`)  n ≥ 3   the same row, the same set
    a7  (`XX`,`YY`,`ZZ`)       n ≥ 3   row `su(2^(n−1))` (n odd), `4·su(2^(n−2))` (n even)
                                        closure = strings commuting with `X…X` and `Z…Z`, except `I…I`, `X…X`, `Y…Y`, `Z…Z`

How.  Upper bound: the closed form is an invariant of the commutator step (a quadratic form with polarisation
`omega`: `qY_add`; a linear constraint `x ⟂ X_0` and "not in the centre").  Lower bound: the peeling induction of
`Proofs/C19RestPeel.lean` - split a target as `r ++ p` (`p` = last two/three sites); in the space `{0,r} × p`,
encoded on k+1 sites, the verified enumerator (evaluated by the kernel, once per "state" of the tail `r`)
reaches every target from windows of the short chain and from strings `(r or 0) ++ b ++ I` that are targets on
n−1 sites.  Base: the closure on 3 (a11: 4) sites by kernel evaluation.  For a7, a13, a20 a target `r ++ LLL` (three equal
letters of a symmetry string at the end) cannot be reached with a fixed tail; it is the commutator of two targets that
can (`exc_spec`, `Proofs/C19RestSym.lean`).

NOT proved for these rows: the invariants beyond the dimension (`rowOK`: one/two blocks, series label); they are
decided per n by the check.  (For the rows with su blocks this cannot be done with the present checker by elementary
means: `invOfClosure` labels a block through a linear search for `r(2r+1) = d`, `labelOfName .SU` through an integer
square root with bounded fuel; that `4^k − 1 = r(2r+1)` has no solution with r ≥ 3 other than k = 6 is the odd case of
the Ramanujan–Nagell theorem.)  Still per (family, n) only: a3, a5, a6, a9, a10, b2 (a6 and a10 are site-wise
relabellings of a7; a3, a5, a9, b2 are quadratic-form-restricted with position-dependent forms).
-/
import PauLieVerif.Properties.C19Su
import PauLieVerif.Proofs.C19RestA16
import PauLieVerif.Proofs.C19RestA15
import PauLieVerif.Proofs.C19RestA13
import PauLieVerif.Proofs.C19RestA7Count

namespace PauLie
namespace C19
open TwoLocal Classify Closure C01Star

/-- a row whose closure is the set `{x | T x}` and has the dimension of the table's name -/
def ClosedRow (f : Fam) (n : Nat) (T : V → Bool) (nm : List Summand) : Prop :=
  (∀ x, Clo (klocalBits f n) x ↔ x.length = 2 * n ∧ T x = true) ∧
  (closureList (klocalBits f n)).1.length = dimOfName nm ∧ tlName f n = some nm

theorem ClosedRow.dimRow {f : Fam} {n : Nat} {T : V → Bool} {nm : List Summand} (h : ClosedRow f n T nm) :
    DimRow f n := ⟨nm, h.2.2, h.2.1⟩

/-- **a16** (`XY`,`YX`,`YZ`,`ZY`), all n ≥ 3: the closure is the set of strings with an odd number of `Y`; it has
`2^n (2^n − 1)/2 = dim so(2^n)` members. -/
theorem C19_a16 (n : Nat) (hn : 3 ≤ n) : ClosedRow .a16 n qY [so (2 ^ n)] := by
  have hb : klocalBits .a16 n = klocalV n gensA16 := klocalBits_eq (gs := gensA16) rfl (by omega) (by simp [gensA16]) lenA16
  rw [ClosedRow, hb]
  refine ⟨clo_a16 hn, ?_, rfl⟩
  have := card_of_peel lenA16 (clo_a16 hn)
  have h1 := count_qY n
  have h2 := dimOfName_so_pow n
  omega

/-- **a11** (`XY`,`YX`,`YZ`), all n ≥ 4 (the row is wrong at n = 3: `C19_refuted`): the same closure as a16. -/
theorem C19_a11 (n : Nat) (hn : 4 ≤ n) : ClosedRow .a11 n qY [so (2 ^ n)] := by
  have hb : klocalBits .a11 n = klocalV n gensA11 := klocalBits_eq (gs := gensA11) rfl (by omega) (by simp [gensA11]) lenA11
  rw [ClosedRow, hb]
  refine ⟨clo_a11 hn, ?_, rfl⟩
  have := card_of_peel lenA11 (clo_a11 hn)
  have h1 := count_qY n
  have h2 := dimOfName_so_pow n
  omega

theorem dimOfName_su_su (n : Nat) : dimOfName [su (2 ^ n), su (2 ^ n)] = 2 * (4 ^ n - 1) := by
  have : (2 ^ n) ^ 2 = 4 ^ n := by rw [← Nat.pow_mul, Nat.mul_comm, Nat.pow_mul]
  simp [dimOfName, Summand.dim, su, dimSU, this]; omega

theorem dimOfName_su_su_u1 (n : Nat) : dimOfName [su (2 ^ n), su (2 ^ n), u1] = 2 * (4 ^ n - 1) + 1 := by
  have : (2 ^ n) ^ 2 = 4 ^ n := by rw [← Nat.pow_mul, Nat.mul_comm, Nat.pow_mul]
  simp [dimOfName, Summand.dim, su, u1, dimSU, this]; omega

/-- **a15** (`XX`,`XY`,`XZ`), all n ≥ 3: the closure is the set of strings `{I,X} ⊗ R`, `R` any non-identity
string on the last n−1 sites (`tX0 false`); it has `2(4^(n−1) − 1) = dim 2·su(2^(n−1))` members. -/
theorem C19_a15 (n : Nat) (hn : 3 ≤ n) : ClosedRow .a15 n (tX0 false) [su (2 ^ (n - 1)), su (2 ^ (n - 1))] := by
  have hb : klocalBits .a15 n = klocalV n gensA15 := klocalBits_eq (gs := gensA15) rfl (by omega) (by simp [gensA15]) lenA15
  rw [ClosedRow, hb]
  refine ⟨clo_a15 hn, ?_, rfl⟩
  rw [card_of_peel lenA15 (clo_a15 hn), dimOfName_su_su]
  obtain ⟨m, rfl⟩ : ∃ m, n = m + 1 := ⟨n - 1, by omega⟩
  rw [count_tX0]; simp

/-- **b4** (`XX`,`XY`,`XZ`,`XI`,`IX`,`IY`,`IZ`), all n ≥ 3: the closure is the closure of a15 together with the
central string `X I … I` (`tX0 true`); it has `2(4^(n−1) − 1) + 1` members: the dimension of the row. -/
theorem C19_b4 (n : Nat) (hn : 3 ≤ n) : ClosedRow .b4 n (tX0 true) [su (2 ^ (n - 1)), su (2 ^ (n - 1)), u1] := by
  have hb : klocalBits .b4 n = klocalV n gensB4 := klocalBits_eq (gs := gensB4) rfl (by omega) (by simp [gensB4]) lenB4
  rw [ClosedRow, hb]
  refine ⟨clo_b4 hn, ?_, rfl⟩
  rw [card_of_peel lenB4 (clo_b4 hn), dimOfName_su_su_u1]
  obtain ⟨m, rfl⟩ : ∃ m, n = m + 1 := ⟨n - 1, by omega⟩
  rw [count_tX0]; simp

/-- **a13** (`XX`,`YY`,`YZ`), all n ≥ 3: the closure is the set of strings commuting with `X X … X` (an even number of
`Y`/`Z` letters) other than the identity and `X X … X` (`T13`); it has `2(4^(n−1) − 1) = dim 2·su(2^(n−1))` members. -/
theorem C19_a13 (n : Nat) (hn : 3 ≤ n) : ClosedRow .a13 n T13 [su (2 ^ (n - 1)), su (2 ^ (n - 1))] := by
  have hb : klocalBits .a13 n = klocalV n gensA13 := klocalBits_eq (gs := gensA13) rfl (by omega) (by simp [gensA13]) lenA13
  rw [ClosedRow, hb]
  refine ⟨clo_a13 hn, ?_, rfl⟩
  rw [card_of_peel lenA13 (clo_a13 hn), dimOfName_su_su]
  obtain ⟨m, rfl⟩ : ∃ m, n = m + 1 := ⟨n - 1, by omega⟩
  rw [count_T13]; simp

/-- **a20** (`XX`,`YY`,`ZZ`,`ZY`), all n ≥ 3: the same closure as a13. -/
theorem C19_a20 (n : Nat) (hn : 3 ≤ n) : ClosedRow .a20 n T13 [su (2 ^ (n - 1)), su (2 ^ (n - 1))] := by
  have hb : klocalBits .a20 n = klocalV n gensA20 := klocalBits_eq (gs := gensA20) rfl (by omega) (by simp [gensA20]) lenA20
  rw [ClosedRow, hb]
  refine ⟨clo_a20 hn, ?_, rfl⟩
  rw [card_of_peel lenA20 (clo_a20 hn), dimOfName_su_su]
  obtain ⟨m, rfl⟩ : ∃ m, n = m + 1 := ⟨n - 1, by omega⟩
  rw [count_T13]; simp

/-- the row of a6, a7, a10: `su(2^(n−1))` for odd n, `4·su(2^(n−2))` for even n -/
def nameA7 (n : Nat) : List Summand := if n % 2 == 1 then [su (2 ^ (n - 1))] else [su (2 ^ (n - 2)) 4]

theorem dimOfName_nameA7 (m : Nat) (hm : 1 ≤ m) :
    dimOfName (nameA7 (m + 1)) + (if (m + 1) % 2 = 1 then 1 else 4) = 4 ^ m := by
  have h2 : ∀ k, (2 ^ k) ^ 2 = 4 ^ k := fun k => by rw [← Nat.pow_mul, Nat.mul_comm, Nat.pow_mul]
  have hp : 1 ≤ 4 ^ m := Nat.pow_pos (by omega)
  rcases Nat.mod_two_eq_zero_or_one (m + 1) with h | h
  · obtain ⟨j, rfl⟩ : ∃ j, m = j + 1 := ⟨m - 1, by omega⟩
    have hp' : 1 ≤ 4 ^ j := Nat.pow_pos (by omega)
    simp [nameA7, h, dimOfName, Summand.dim, su, dimSU, h2, Nat.pow_succ]; omega
  · simp [nameA7, h, dimOfName, Summand.dim, su, dimSU, h2]; omega

/-- **a7** (`XX`,`YY`,`ZZ`), all n ≥ 3: the closure is the set of strings commuting with `X…X` and `Z…Z` other than the
identity, `X…X`, `Y…Y`, `Z…Z` (`T7`); it has `4^(n−1) − 1` (n odd) resp. `4^(n−1) − 4` (n even) members: the dimension
of the row `su(2^(n−1))` resp. `4·su(2^(n−2))`. -/
theorem C19_a7 (n : Nat) (hn : 3 ≤ n) : ClosedRow .a7 n T7 (nameA7 n) := by
  have hb : klocalBits .a7 n = klocalV n gensA7 := klocalBits_eq (gs := gensA7) rfl (by omega) (by simp [gensA7]) lenA7
  rw [ClosedRow, hb]
  refine ⟨clo_a7 hn, ?_, by simp only [tlName, a6, nameA7]; split <;> rfl⟩
  rw [card_of_peel lenA7 (clo_a7 hn)]
  obtain ⟨m, rfl⟩ : ∃ m, n = m + 1 := ⟨n - 1, by omega⟩
  have h1 := count_T7 m
  have h2 := dimOfName_nameA7 m (by omega)
  omega

/-- **C19, dimension clause, seven more families for all n**: a7, a13, a15, a16, a20, b4 (n ≥ 3), a11 (n ≥ 4).  With
`C19_dimension` (nine families, all invariants in `C19_rows`) and `C19_dimension_su` (six families): the dimension clause
of 22 of the 28 rows is proved for every n (≥ 3; a11, a12, a17: ≥ 4), each with the closure in closed form. -/
theorem C19_dimension_more (n : Nat) (hn : 3 ≤ n) :
    DimRow .a7 n ∧ DimRow .a13 n ∧ DimRow .a15 n ∧ DimRow .a16 n ∧ DimRow .a20 n ∧ DimRow .b4 n ∧ (4 ≤ n → DimRow .a11 n) :=
  ⟨(C19_a7 n hn).dimRow, (C19_a13 n hn).dimRow, (C19_a15 n hn).dimRow, (C19_a16 n hn).dimRow, (C19_a20 n hn).dimRow,
    (C19_b4 n hn).dimRow, fun h4 => (C19_a11 n h4).dimRow⟩

/-! non-vacuity: the closed forms against the verified enumeration, by kernel evaluation -/
example : qY [true, true, false, true, true, false] = true ∧ qY [true, true, true, true] = false := by decide
example : tX0 false [true, false, false, false, false, true] = true ∧ tX0 false [true, false, false, false, false, false] = false
    ∧ tX0 true [true, false, false, false, false, false] = true := by decide
example : T13 [true, true, false, true, false, false] = true ∧ T13 [true, false, true, false, true, false] = false
    ∧ T7 [true, true, true, true, false, false] = true ∧ T7 [true, true, false, true, false, false] = false := by decide
example : nameA7 5 = [su 16] ∧ nameA7 6 = [su 16 4] ∧ dimOfName (nameA7 6) = 1020 := by decide
example : (closureList (klocalBits .a7 4)).1.length = 60 ∧ (closureList (klocalBits .a13 3)).1.length = 30 := by decide +kernel
example : (closureList (klocalBits .a16 3)).1.length = 28 ∧ (closureList (klocalBits .a15 3)).1.length = 30
    ∧ (closureList (klocalBits .b4 3)).1.length = 31 := by decide +kernel

end C19
end PauLie
