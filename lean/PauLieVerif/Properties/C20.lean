/-
Property C20, for the model `PauLieVerif/Model/Optimise.lean` of
`get_optimal_su_2_n_generators` / `find_generators_with_connection`:

  "For every generator collection whose algebra is su(2^n), the search for an optimised
   generator set terminates and returns a set of between 2n+1 and the given number of
   distinct strings that generates exactly the same commutator closure as the input,
   whatever the random tie-breaking."

Proved here, for all n, all collections of synchronised strings of one length, all target
numbers and **all streams of random values**:

* `C20_move_closure`   — a contraction move keeps the commutator closure, the number of
                          strings and their length;
* `C20_iterate_moves`  — whatever one pass of the outer loop moves to (the greedy choice, or
                          any index the random draw can exit with) is such a move;
* `C20_run_preserves`  — hence every run that returns, returns a collection with the same
                          closure and the same number of strings as the canonical vertices
                          it started from;
* `C20_explore_covers_run` — the exhaustive exploration `exploreAll` used by the check
                          contains the result of every run (so deciding the exploration
                          decides every seed).

Not proved (decided per input by the check, by exhaustive exploration of the random choices):
termination for every input (`Explored.stuck`, `Explored.mayRaise`), that the canonical
vertices generate the closure of the input (C02).  That 2n+1 strings generating su(2^n), n ≥ 2,
are necessarily distinct is proved in `Properties/C20Min.lean` (`C20_distinct`, `C20_run_distinct`).
-/
import PauLieVerif.Proofs.C20Lemmas

namespace PauLie
namespace C20
open Collection Optimise Closure

/-- **C20, a contraction keeps the algebra and the set size.** -/
theorem C20_move_closure {n : Nat} {G G' : List V} (hG : Uniform n G) (h : MoveB G G') :
    (∀ x, Clo G x ↔ Clo G' x) ∧ G'.length = G.length ∧ Uniform n G' :=
  move_spec hG h

/-! ### the anticommuting pairs -/

theorem filterAnti_spec : ∀ (l r : List (PS × PS)), filterAnti l = .ok r →
    ∀ xy ∈ r, xy ∈ l ∧ xy.1.commutesWith xy.2 = .ok false
  | [], r, h, xy, hxy => by
    simp [filterAnti] at h; subst h; cases hxy
  | (x, y) :: rest, r, h, xy, hxy => by
    unfold filterAnti at h
    cases hc : x.commutesWith y with
    | error e => simp [hc, bind, Except.bind] at h
    | ok c =>
      cases hr : filterAnti rest with
      | error e => simp [hc, hr, bind, Except.bind] at h
      | ok r' =>
        simp [hc, hr, bind, Except.bind, pure, Except.pure] at h
        subst h
        cases c with
        | true =>
          simp only [if_true] at hxy
          obtain ⟨h1, h2⟩ := filterAnti_spec rest r' hr xy hxy
          exact ⟨List.mem_cons_of_mem _ h1, h2⟩
        | false =>
          simp only [Bool.false_eq_true, if_false] at hxy
          rcases List.mem_cons.mp hxy with rfl | hxy
          · exact ⟨List.mem_cons_self, hc⟩
          · obtain ⟨h1, h2⟩ := filterAnti_spec rest r' hr xy hxy
            exact ⟨List.mem_cons_of_mem _ h1, h2⟩

/-- a listed connection is a pair of anticommuting members -/
def ValidPair (g : List PS) (xy : PS × PS) : Prop :=
  xy.1 ∈ g ∧ xy.2 ∈ g ∧ omega xy.1.bits xy.2.bits = true

theorem listConnections_spec {n : Nat} {g : List PS} (hg : UW n g) {lc : List (PS × PS)}
    (h : listConnections g = .ok lc) : ∀ xy ∈ lc, ValidPair g xy := by
  intro xy hxy
  obtain ⟨hm, hc⟩ := filterAnti_spec _ _ h xy hxy
  obtain ⟨x, y⟩ := xy
  obtain ⟨i, j, _, hi, hj⟩ := (C14.C14_combinations2 g x y).mp hm
  have hx : x ∈ g := List.mem_of_getElem? hi
  have hy : y ∈ g := List.mem_of_getElem? hj
  refine ⟨hx, hy, ?_⟩
  have := Bridge.commutesWith_omega (hg x hx).1 (hg y hy).1 ((hg x hx).2.trans (hg y hy).2.symm)
  simp only at hc
  rw [this] at hc
  simpa using hc

/-- what a pass may move to -/
def Next (n : Nat) (g g' : List PS) : Prop := UW n g' ∧ MoveB (bitsOf g) (bitsOf g')

theorem next_refl {n : Nat} {g : List PS} (hg : UW n g) : Next n g g := ⟨hg, MoveB.same rfl⟩

theorem validPair_swap {g : List PS} {xy : PS × PS} (h : ValidPair g xy) : ValidPair g (xy.2, xy.1) :=
  ⟨h.2.1, h.1, by rw [omega_comm]; exact h.2.2⟩

theorem greedyStep_spec {n : Nat} {number : Int} {g : List PS} (hg : UW n g) {acc acc' : List PS × Int}
    {xy : PS × PS} (hxy : ValidPair g xy) (hacc : Next n g acc.1)
    (h : greedyStep number g acc xy = .ok acc') : Next n g acc'.1 := by
  unfold greedyStep at h
  cases h1 : contractCopy g xy.1 xy.2 with
  | error e => simp [h1, bind, Except.bind] at h
  | ok gx =>
    cases h2 : contractCopy g xy.2 xy.1 with
    | error e => simp [h1, h2, bind, Except.bind] at h
    | ok gy =>
      have hgx := contractCopy_spec hg hxy.1 hxy.2.1 hxy.2.2 h1
      have hgy := contractCopy_spec hg hxy.2.1 hxy.1 (validPair_swap hxy).2.2 h2
      cases h3 : delta number gx with
      | error e => simp [h1, h2, h3, bind, Except.bind] at h
      | ok dx =>
        cases h4 : delta number gy with
        | error e => simp [h1, h2, h3, h4, bind, Except.bind] at h
        | ok dy =>
          simp only [h1, h2, h3, h4, bind, Except.bind, pure, Except.pure] at h
          split at h
          · split at h
            · cases h; exact hacc
            · split at h
              · cases h; exact hgx
              · cases h; exact hacc
          · split at h
            · cases h; exact hacc
            · split at h
              · cases h; exact hgy
              · cases h; exact hacc

theorem foldlM_greedy {n : Nat} {number : Int} {g : List PS} (hg : UW n g) :
    ∀ (lc : List (PS × PS)) (acc acc' : List PS × Int), (∀ xy ∈ lc, ValidPair g xy) →
      Next n g acc.1 → lc.foldlM (greedyStep number g) acc = .ok acc' → Next n g acc'.1
  | [], acc, acc', _, hacc, h => by
    simp [List.foldlM, pure, Except.pure] at h; subst h; exact hacc
  | xy :: lc, acc, acc', hv, hacc, h => by
    rw [List.foldlM_cons] at h
    cases h1 : greedyStep number g acc xy with
    | error e => simp [h1, bind, Except.bind] at h
    | ok a1 =>
      simp only [h1, bind, Except.bind] at h
      exact foldlM_greedy hg lc a1 acc' (fun z hz => hv z (List.mem_cons_of_mem _ hz))
        (greedyStep_spec hg (hv xy List.mem_cons_self) hacc h1) h

theorem greedyPass_spec {n : Nat} {number d : Int} {g : List PS} (hg : UW n g) {lc : List (PS × PS)}
    (hv : ∀ xy ∈ lc, ValidPair g xy) {r : List PS × Int}
    (h : greedyPass number g lc d = .ok r) : Next n g r.1 := by
  unfold greedyPass at h
  rw [collInit_uw hg] at h
  simp only [bind, Except.bind] at h
  exact foldlM_greedy hg lc (g, d) r hv (next_refl hg) h

theorem innerOne_spec {n : Nat} {number : Int} {g : List PS} (hg : UW n g) {lc : List (PS × PS)}
    (hv : ∀ xy ∈ lc, ValidPair g xy) {idx : Nat} {g' : List PS}
    (h : innerOne number g lc idx = .ok (Inner.exit g')) : Next n g g' := by
  unfold innerOne at h
  cases hl : lc[idx]? with
  | none => simp [hl, pure, Except.pure] at h
  | some xy =>
    obtain ⟨x, y⟩ := xy
    have hxy := hv (x, y) (List.mem_of_getElem? hl)
    simp only [hl] at h
    cases h1 : contractCopy g x y with
    | error e => simp [h1, bind, Except.bind] at h
    | ok gx =>
      cases h2 : contractCopy g y x with
      | error e => simp [h1, h2, bind, Except.bind] at h
      | ok gy =>
        cases h3 : delta number gx with
        | error e => simp [h1, h2, h3, bind, Except.bind] at h
        | ok dx =>
          cases h4 : delta number gy with
          | error e => simp [h1, h2, h3, h4, bind, Except.bind] at h
          | ok dy =>
            simp only [h1, h2, h3, h4, bind, Except.bind, pure, Except.pure] at h
            split at h
            · cases h
              exact contractCopy_spec hg hxy.1 hxy.2.1 hxy.2.2 h1
            · cases h

theorem mapM_mem {α β : Type} {f : α → Except Err β} : ∀ (l : List α) (r : List β),
    l.mapM f = .ok r → ∀ y ∈ r, ∃ x ∈ l, f x = .ok y
  | [], r, h, y, hy => by
    simp [pure, Except.pure] at h; subst h; cases hy
  | a :: l, r, h, y, hy => by
    rw [List.mapM_cons] at h
    cases h1 : f a with
    | error e => simp [h1, bind, Except.bind] at h
    | ok b =>
      cases h2 : l.mapM f with
      | error e => simp [h1, h2, bind, Except.bind] at h
      | ok bs =>
        simp [h1, h2, bind, Except.bind, pure, Except.pure] at h
        subst h
        rcases List.mem_cons.mp hy with rfl | hy
        · exact ⟨a, List.mem_cons_self, h1⟩
        · obtain ⟨x, hx, hfx⟩ := mapM_mem l bs h2 y hy
          exact ⟨x, List.mem_cons_of_mem _ hx, hfx⟩

/-- what `iterate` can lead to -/
def IterOK (n : Nat) (g : List PS) : Iter → Prop
  | .finished => True
  | .greedy g' => Next n g g'
  | .inner opts => ∀ g', Inner.exit g' ∈ opts → Next n g g'

/-- **C20, every step of the search is a contraction (or nothing).**  One pass of the outer
loop leads — by the greedy choice or by whichever index the random draw exits with — only
to the current collection or to a contraction of it by an anticommuting member. -/
theorem C20_iterate_moves {n : Nat} {number : Int} {g : List PS} {i : Nat} (hg : UW n g) {r : Iter}
    (h : iterate number g i = .ok r) : IterOK n g r := by
  unfold iterate at h
  cases h0 : delta number g with
  | error e => simp [h0, bind, Except.bind] at h
  | ok d =>
    simp only [h0, bind, Except.bind] at h
    split at h
    · simp [pure, Except.pure] at h; subst h; trivial
    · cases h1 : listConnections g with
      | error e => simp [h1] at h
      | ok lc =>
        have hv := listConnections_spec hg h1
        simp only [h1] at h
        cases h2 : greedyPass number g lc d with
        | error e => simp [h2] at h
        | ok r2 =>
          obtain ⟨cur, dmin⟩ := r2
          simp only [h2] at h
          split at h
          · cases h3 : innerTable number g lc i with
            | error e => simp [h3] at h
            | ok opts =>
              simp [h3, pure, Except.pure] at h
              subst h
              intro g' hg'
              unfold innerTable at h3
              obtain ⟨idx, _, hidx⟩ := mapM_mem _ _ h3 _ hg'
              exact innerOne_spec hg hv hidx
          · simp [pure, Except.pure] at h
            subst h
            exact greedyPass_spec hg hv h2

/-! ### whole runs -/

/-- reflexive-transitive closure of the moves: same closure, same size, same length -/
def Same (n : Nat) (g g' : List PS) : Prop :=
  UW n g' ∧ (∀ x, Clo (bitsOf g) x ↔ Clo (bitsOf g') x) ∧ g'.length = g.length

theorem same_refl {n : Nat} {g : List PS} (hg : UW n g) : Same n g g := ⟨hg, fun _ => Iff.rfl, rfl⟩

theorem same_next {n : Nat} {g g' g'' : List PS} (hg : UW n g) (h1 : Same n g g') (h2 : Next n g' g'') :
    Same n g g'' := by
  obtain ⟨hu, hm⟩ := h2
  obtain ⟨hc, hl, _⟩ := move_spec (uniform_of_uw h1.1) hm
  refine ⟨hu, fun x => (h1.2.1 x).trans (hc x), ?_⟩
  have : g''.length = g'.length := by simpa [bitsOf] using hl
  rw [this, h1.2.2]

theorem drawInner_mem (opts : List Inner) (i : Nat) : ∀ (rnd rnd' : List Nat) (g' : List PS),
    drawInner opts i rnd = some (Inner.exit g', rnd') → Inner.exit g' ∈ opts
  | [], _, _, h => by simp [drawInner] at h
  | r :: rs, rnd', g', h => by
    unfold drawInner at h
    cases ho : opts[r % (i + 1)]? with
    | none => simp [ho] at h
    | some o =>
      cases o with
      | retry => simp only [ho] at h; exact drawInner_mem opts i rs rnd' g' h
      | exit g2 =>
        simp only [ho, Option.some.injEq, Prod.mk.injEq, Inner.exit.injEq] at h
        obtain ⟨rfl, _⟩ := h
        exact List.mem_of_getElem? ho
      | indexError => simp [ho] at h

theorem runLoop_same {n : Nat} {number : Int} {maxIter : Nat} :
    ∀ (fuel : Nat) (g0 g : List PS) (i : Nat) (rnd : List Nat) (g' : List PS), UW n g0 → Same n g0 g →
      runLoop number maxIter fuel g i rnd = .ok g' → Same n g0 g'
  | 0, g0, g, i, rnd, g', _, hs, h => by
    simp [runLoop] at h; subst h; exact hs
  | fuel + 1, g0, g, i, rnd, g', h0, hs, h => by
    unfold runLoop at h
    split at h
    · cases hi : iterate number g i with
      | error e => simp [hi] at h
      | ok r =>
        have hr := C20_iterate_moves hs.1 hi
        cases r with
        | finished => simp [hi] at h; subst h; exact hs
        | greedy g2 =>
          simp only [hi] at h
          exact runLoop_same fuel g0 g2 (i + 1) rnd g' h0 (same_next h0 hs hr) h
        | inner opts =>
          simp only [hi] at h
          cases hd : drawInner opts i rnd with
          | none => simp [hd] at h
          | some p =>
            obtain ⟨o, rnd'⟩ := p
            cases o with
            | exit g2 =>
              simp only [hd] at h
              exact runLoop_same fuel g0 g2 (i + 1) rnd' g' h0
                (same_next h0 hs (hr g2 (drawInner_mem opts i rnd rnd' g2 hd))) h
            | retry => simp [hd] at h
            | indexError => simp [hd] at h
    · simp at h; subst h; exact hs

/-- **C20, whatever the random tie-breaking.**  If `find_generators_with_connection`, started
from canonical vertices `verts` (synchronised strings of one length), returns `g'` for some
stream of random values, then `g'` generates exactly the commutator closure of `verts`, has
as many strings, and they are again synchronised strings of that length. -/
theorem C20_run_preserves {n : Nat} (verts : List PS) (number : Int) (rnd : List Nat) (g' : List PS)
    (hv : UW n verts) (h : findGenerators verts number rnd = .ok g') :
    UW n g' ∧ (∀ x, Clo (bitsOf verts) x ↔ Clo (bitsOf g') x) ∧ g'.length = verts.length := by
  unfold findGenerators at h
  rw [collInit_uw hv] at h
  exact runLoop_same _ verts verts 0 rnd g' hv (same_refl hv) h

/-! ### the exploration covers every run -/

theorem mem_merge_fold (f : List PS → Explored) : ∀ (exits : List (List PS)) (base : Explored) (x : List PS),
    (x ∈ base.results ∨ ∃ e ∈ exits, x ∈ (f e).results) →
      x ∈ (exits.foldl (fun acc e => acc.merge (f e)) base).results
  | [], base, x, h => by
    rcases h with h | ⟨e, he, _⟩
    · exact h
    · cases he
  | e :: exits, base, x, h => by
    simp only [List.foldl_cons]
    apply mem_merge_fold f exits
    rcases h with h | ⟨e', he', hx⟩
    · left; simp [Explored.merge, h]
    · rcases List.mem_cons.mp he' with rfl | he'
      · left; simp [Explored.merge, hx]
      · right; exact ⟨e', he', hx⟩

/-- **C20, the exploration decides every seed.**  The result of a run under any stream of
random values is among the results of the exhaustive exploration. -/
theorem exploreLoop_covers {number : Int} {maxIter : Nat} :
    ∀ (fuel : Nat) (g : List PS) (i : Nat) (rnd : List Nat) (g' : List PS),
      runLoop number maxIter fuel g i rnd = .ok g' → g' ∈ (exploreLoop number maxIter fuel g i).results
  | 0, g, i, rnd, g', h => by
    simp [runLoop] at h; subst h; simp [exploreLoop]
  | fuel + 1, g, i, rnd, g', h => by
    unfold runLoop at h
    unfold exploreLoop
    split at h
    · next hlt =>
      simp only [hlt, if_true]
      cases hi : iterate number g i with
      | error e => simp [hi] at h
      | ok r =>
        cases r with
        | finished => simp [hi] at h; subst h; simp
        | greedy g2 =>
          simp only [hi] at h ⊢
          exact exploreLoop_covers fuel g2 (i + 1) rnd g' h
        | inner opts =>
          simp only [hi] at h ⊢
          cases hd : drawInner opts i rnd with
          | none => simp [hd] at h
          | some p =>
            obtain ⟨o, rnd'⟩ := p
            cases o with
            | exit g2 =>
              simp only [hd] at h
              apply mem_merge_fold
              right
              refine ⟨g2, ?_, exploreLoop_covers fuel g2 (i + 1) rnd' g' h⟩
              simp only [List.mem_filterMap]
              exact ⟨Inner.exit g2, drawInner_mem opts i rnd rnd' g2 hd, rfl⟩
            | retry => simp [hd] at h
            | indexError => simp [hd] at h
    · next hlt =>
      simp only [hlt, if_false]
      simp at h; subst h; simp

theorem C20_explore_covers_run (verts : List PS) (number : Int) (rnd : List Nat) (g' : List PS)
    (h : findGenerators verts number rnd = .ok g') : g' ∈ (exploreAll verts number).results := by
  unfold findGenerators at h
  unfold exploreAll
  cases hc : Graph.collInit verts with
  | error e => simp [hc] at h
  | ok g =>
    simp only [hc] at h ⊢
    exact exploreLoop_covers _ g 0 rnd g' h

/-- non-vacuity: canonical vertices of su(4) (a star of 5 synchronised strings on 2 qubits) -/
example : UW 2 [PS.ofLetters [.X, .I], PS.ofLetters [.Z, .Z], PS.ofLetters [.Z, .I],
    PS.ofLetters [.X, .X], PS.ofLetters [.I, .Z]] := by
  intro p hp
  simp only [List.mem_cons, List.mem_nil_iff, or_false] at hp
  rcases hp with rfl | rfl | rfl | rfl | rfl <;> exact ⟨by decide, by decide⟩

end C20
end PauLie
