/-
Property C18 (verbatim):
  "After any sequence of in-place edits of a Pauli string (setting letters or
  substrings, incrementing) every observation - text, length, letters by index
  or iteration, substrings, equality, ordering, hash, index, matrix, commutation
  and products with other strings - equals that of a string freshly built from
  the resulting text; tensoring, expanding and copying produce independent
  objects with the concatenated / padded text; enumerating all strings of
  length n yields each of the 4^n strings exactly once in index order."

All theorems are about the executable model `PauLie.PS` (Model/PS.lean), which
keeps the three bit vectors of the Python object (`bits`, `bits_even`,
`bits_odd`) as three independent fields; they hold for ALL lengths, ALL start
positions (negative / out of range / interrupted by IndexError included) and
ALL edit histories.  Only theorems, the history type and `example`s live here;
the lemmas are in Proofs/C18Lemmas.lean.
-/
import PauLieVerif.Proofs.C18Lemmas

namespace PauLie
namespace C18

open PS

/-! ## Edit histories -/

/-- The in-place edits of `PauliString`: `set_substring(start, q)` (also reached
through `__setitem__`) and `inc()`.  `q` is the already-built right-hand side
(`_ensure_pauli_string`).  `q` is a VALUE (a snapshot): the call
`p.set_substring(k, p)` with the right-hand side aliasing the target is outside
this value model (Python then reads letters it has already overwritten, e.g.
`XYZI.set_substring(1, self)` gives `XXXX`, still with synchronised views);
the differential harness drives `set` only with independently built `q`. -/
inductive Edit where
  | set (start : Int) (q : PS)
  | inc
  deriving DecidableEq, Repr

/-- The right-hand side of a `set` is a freshly built string, hence synchronised. -/
def Edit.Valid : Edit → Prop
  | .set _ q => q.WF
  | .inc => True

instance (e : Edit) : Decidable e.Valid := by
  cases e <;> unfold Edit.Valid <;> exact inferInstance

/-- One edit.  For `set` the state reached is taken even when an IndexError
interrupted the loop (Python leaves the object partially updated). -/
def step (s : PS) : Edit → PS
  | .set start q => (PS.setSubstring s start q).1
  | .inc => PS.inc s

def run (s : PS) (es : List Edit) : PS := es.foldl step s

/-! ## Freshly built strings are synchronised -/

theorem wf_ofBits (b : List Bool) (h : b.length % 2 = 0) : (PS.ofBits b).WF :=
  wf_ofBits' b h

theorem wf_ofLetters (w : List Letter) : (PS.ofLetters w).WF :=
  wf_ofLetters' w

example : (PS.ofBits [true, false, false, true, true, true]).WF := by decide
example : (PS.ofLetters [.X, .Z, .Y, .I]).WF := by decide
/-- the evenness hypothesis of `wf_ofBits` cannot be dropped -/
example : ¬ (PS.ofBits [true, false, true]).WF := by decide

/-! ## The observation principle -/

/-- A synchronised state IS the string freshly built from its text: all three
views coincide (structure equality). -/
theorem C18_observe (s : PS) (h : s.WF) : s = PS.ofLetters s.letters :=
  eq_ofLetters_of_WF s h

/-- Hence every observation (any function of the value: `sign`, `commutesWith`,
`multiply`, `adjointMap`, `lt`, `le`, `beq`, `getIndex`, `getDiagonalIndex`,
`getSubstring`, `letters`, `len`, iteration, matrix, hash of the text, …, also
those taking further arguments) agrees with that of the fresh string. -/
theorem C18_observe_any {α : Sort _} (obs : PS → α) (s : PS) (h : s.WF) :
    obs s = obs (PS.ofLetters s.letters) :=
  congrArg obs (C18_observe s h)

/-- an unsynchronised triple (what a wrong `set_substring` would produce) is
distinguished by `C18_observe`: the hypothesis matters -/
example : (⟨[true, false], [false], [false]⟩ : PS) ≠ PS.ofLetters (PS.letters ⟨[true, false], [false], [false]⟩) := by
  decide
example : let s := (PS.setSubstring (PS.ofLetters [.X, .Y, .Z]) (-2) (PS.ofLetters [.Z, .X])).1
    s.WF ∧ s = PS.ofLetters s.letters ∧ s.letters = [.X, .Z, .X] := by decide
example (q : PS) : let s := (PS.setSubstring (PS.ofLetters [.X, .Y, .Z]) (-2) (PS.ofLetters [.Z, .X])).1
    PS.sign s q = PS.sign (PS.ofLetters s.letters) q :=
  C18_observe_any (fun s => PS.sign s q) _ (by decide)

/-! ## One step -/

/-- `set_substring` on synchronised strings, for every `start : Int`, is the
letter-level loop `writeFrom` (Proofs/C18Lemmas.lean) on the texts; in
particular all three views of the result are those of a fresh string, also
after an IndexError. -/
theorem C18_set_general (s q : PS) (start : Int) (hs : s.WF) (hq : q.WF) :
    PS.setSubstring s start q =
      (PS.ofLetters (writeFrom s.letters start q.letters 0 q.len).1,
       (writeFrom s.letters start q.letters 0 q.len).2) := by
  obtain ⟨w, rfl⟩ : ∃ w, s = PS.ofLetters w := ⟨_, eq_ofLetters_of_WF s hs⟩
  obtain ⟨v, rfl⟩ : ∃ v, q = PS.ofLetters v := ⟨_, eq_ofLetters_of_WF q hq⟩
  simp only [letters_ofLetters, len_ofLetters, PS.setSubstring]
  exact setLoop_ofLetters w v start 0 v.length (by omega)

/-- Both in-place edits preserve the synchronisation invariant: for every
`start` (negative, out of range) and also on the error exit of `set_substring`. -/
theorem C18_step (s q : PS) (start : Int) (hs : s.WF) (hq : q.WF) :
    (PS.setSubstring s start q).1.WF ∧ (PS.inc s).WF := by
  constructor
  · rw [C18_set_general s q start hs hq]
    exact wf_ofLetters _
  · exact wf_ofBits _ (by rw [incBits_length]; exact hs.2.2)

/-- The length never changes under the in-place edits. -/
theorem C18_step_len (s q : PS) (start : Int) (hs : s.WF) (hq : q.WF) :
    (PS.setSubstring s start q).1.len = s.len ∧ (PS.inc s).len = s.len := by
  constructor
  · rw [C18_set_general s q start hs hq, len_ofLetters, writeFrom_length]
    simp [PS.letters, PS.len, decode_length]
  · simp [PS.inc, PS.len, PS.ofBits, incBits_length]

example : (PS.ofLetters [.X, .Y, .Z]).WF ∧ (PS.ofLetters [.Z, .X]).WF := by decide
/-- the theorem instantiated on a concrete state, hypotheses discharged by evaluation -/
example : (PS.setSubstring (PS.ofLetters [.X, .Y, .Z]) (-2) (PS.ofLetters [.Z, .X])).1.WF :=
  (C18_step (PS.ofLetters [.X, .Y, .Z]) (PS.ofLetters [.Z, .X]) (-2) (by decide) (by decide)).1
/-- the hypothesis `q.WF` cannot be dropped: an unsynchronised right-hand side
desynchronises the target -/
example : ¬ (PS.setSubstring (PS.ofLetters [.X]) 0 ⟨[false, true], [true], [false]⟩).1.WF := by
  decide
/-- error exit (window runs off the end): state still synchronised, partially written -/
example : PS.setSubstring (PS.ofLetters [.X, .Y, .Z]) 2 (PS.ofLetters [.I, .X])
    = (PS.ofLetters [.X, .Y, .I], some .indexError) := by decide
/-- wrap-around from negative to non-negative indices -/
example : PS.setSubstring (PS.ofLetters [.X, .Y, .Z]) (-1) (PS.ofLetters [.I, .X])
    = (PS.ofLetters [.X, .Y, .I], none) := by decide
example : PS.inc (PS.ofLetters [.X, .Y, .Y]) = PS.ofLetters [.Y, .I, .I] := by decide

/-! ## All histories -/

theorem C18_reachable_from (s : PS) (hs : s.WF) (es : List Edit) (hes : ∀ e ∈ es, e.Valid) :
    (run s es).WF ∧ (run s es).len = s.len := by
  induction es generalizing s with
  | nil => exact ⟨hs, rfl⟩
  | cons e es ih =>
    have he : e.Valid := hes e (by simp)
    have hes' : ∀ e' ∈ es, e'.Valid := fun e' h => hes e' (by simp [h])
    simp only [run, List.foldl_cons]
    cases e with
    | set start q =>
      have h1 := (C18_step s q start hs he).1
      have h2 := (C18_step_len s q start hs he).1
      have := ih _ h1 hes'
      simp only [run] at this
      exact ⟨this.1, this.2.trans h2⟩
    | inc =>
      have h1 : (PS.inc s).WF := wf_ofBits _ (by rw [incBits_length]; exact hs.2.2)
      have h2 : (PS.inc s).len = s.len := by simp [PS.inc, PS.len, PS.ofBits, incBits_length]
      have := ih _ h1 hes'
      simp only [run] at this
      exact ⟨this.1, this.2.trans h2⟩

/-- Every state reachable from a freshly built string by any edit history is
synchronised, and has the original length. -/
theorem C18_reachable (w : List Letter) (es : List Edit) (hes : ∀ e ∈ es, e.Valid) :
    (run (PS.ofLetters w) es).WF ∧ (run (PS.ofLetters w) es).len = w.length := by
  have := C18_reachable_from (PS.ofLetters w) (wf_ofLetters w) es hes
  rwa [len_ofLetters] at this

/-- Main statement of the first clause of C18: after any edit history every
observation equals that of the string freshly built from the resulting text. -/
theorem C18_history (w : List Letter) (es : List Edit) (hes : ∀ e ∈ es, e.Valid)
    {α : Sort _} (obs : PS → α) :
    obs (run (PS.ofLetters w) es) = obs (PS.ofLetters (run (PS.ofLetters w) es).letters) :=
  C18_observe_any obs _ (C18_reachable w es hes).1

example :
    let es := [Edit.set (-1) (PS.ofLetters [.Y, .Z]), .inc, .set 1 (PS.ofLetters [.Z]),
               .set 7 (PS.ofLetters [.X]), .set (-9) (PS.ofLetters [.X]), .inc]
    (∀ e ∈ es, e.Valid) ∧ (run (PS.ofLetters [.X, .Y, .Z, .I]) es).WF
      ∧ (run (PS.ofLetters [.X, .Y, .Z, .I]) es).letters = [.Z, .Z, .X, .Z] := by decide

/-! ## Functional correctness of `set_substring` -/

/-- Non-negative start, success and failure at once: the letters
`[start, start + q.len)` that exist are replaced by the corresponding letters
of `q`, everything else is untouched; the call raises IndexError iff the window
does not fit (and `q` is non-empty). -/
theorem C18_set_spec (s q : PS) (start : Int) (hs : s.WF) (hq : q.WF) (h0 : 0 ≤ start) :
    (PS.setSubstring s start q).1.letters =
        s.letters.take start.toNat ++ q.letters.take (s.len - start.toNat)
          ++ s.letters.drop (start.toNat + q.len)
    ∧ (PS.setSubstring s start q).2 =
        if start.toNat + q.len ≤ s.len ∨ q.len = 0 then none else some Err.indexError := by
  obtain ⟨w, rfl⟩ : ∃ w, s = PS.ofLetters w := ⟨_, eq_ofLetters_of_WF s hs⟩
  obtain ⟨v, rfl⟩ : ∃ v, q = PS.ofLetters v := ⟨_, eq_ofLetters_of_WF q hq⟩
  rw [C18_set_general _ _ _ hs hq]
  simp only [letters_ofLetters, len_ofLetters, writeFrom_nonneg w v start h0]
  exact ⟨trivial, trivial⟩

/-- Successful set with `0 ≤ start`: the window is replaced by `q`'s text. -/
theorem C18_set_spec_ok (s q : PS) (start : Int) (hs : s.WF) (hq : q.WF) (h0 : 0 ≤ start)
    (hok : (PS.setSubstring s start q).2 = none) :
    (PS.setSubstring s start q).1.letters =
      s.letters.take start.toNat ++ q.letters ++ s.letters.drop (start.toNat + q.len)
    ∧ (start.toNat + q.len ≤ s.len ∨ q.len = 0) := by
  obtain ⟨h1, h2⟩ := C18_set_spec s q start hs hq h0
  have hfit : start.toNat + q.len ≤ s.len ∨ q.len = 0 := by
    rw [h2] at hok
    by_cases c : start.toNat + q.len ≤ s.len ∨ q.len = 0
    · exact c
    · rw [if_neg c] at hok; cases hok
  refine ⟨?_, hfit⟩
  have hl : q.letters.length = q.len := by simp [PS.letters, PS.len, decode_length]
  have e : q.letters.take (s.len - start.toNat) = q.letters :=
    List.take_of_length_le (by omega)
  rw [h1, e]

/-- Failing set with `0 ≤ start`: it is an IndexError, the window does not fit,
the letters of `q` before the failing iteration `s.len - start` have been
written at `[start, s.len)` and the letters before `start` are untouched (for
`start > s.len` nothing is written). -/
theorem C18_set_spec_err (s q : PS) (start : Int) (hs : s.WF) (hq : q.WF) (h0 : 0 ≤ start)
    (e : Err) (herr : (PS.setSubstring s start q).2 = some e) :
    e = Err.indexError ∧ s.len < start.toNat + q.len ∧
    (PS.setSubstring s start q).1.letters =
      s.letters.take start.toNat ++ q.letters.take (s.len - start.toNat) := by
  obtain ⟨h1, h2⟩ := C18_set_spec s q start hs hq h0
  rw [h2] at herr
  by_cases c : start.toNat + q.len ≤ s.len ∨ q.len = 0
  · rw [if_pos c] at herr; cases herr
  · rw [if_neg c] at herr
    have hl : s.letters.length = s.len := by simp [PS.letters, PS.len, decode_length]
    refine ⟨by cases herr; rfl, by omega, ?_⟩
    rw [h1, List.drop_of_length_le (by omega), List.append_nil]

/-- Error exit for EVERY start: it is an IndexError raised at the first
iteration `k` whose Python index `start + k` is out of range; the state is
exactly the one reached by the `k` successful iterations before it. -/
theorem C18_set_spec_error (s q : PS) (start : Int) (hs : s.WF) (hq : q.WF) (e : Err)
    (herr : (PS.setSubstring s start q).2 = some e) :
    e = Err.indexError ∧ ∃ k, k < q.len ∧ PS.pyIndex? s.letters (start + k) = none ∧
      (∀ d, d < k → (PS.pyIndex? s.letters (start + d)).isSome) ∧
      writeFrom s.letters start q.letters 0 k = ((PS.setSubstring s start q).1.letters, none) := by
  rw [C18_set_general s q start hs hq] at herr ⊢
  obtain ⟨he, k, h1, h2, h3, h4⟩ := writeFrom_err _ _ _ _ _ _ herr
  refine ⟨he, k, h1, by simpa using h2, ?_, by simpa [letters_ofLetters] using h4⟩
  intro d hd
  simpa using h3 d hd

/-- Success for EVERY start means every index of the window was in range. -/
theorem C18_set_spec_success (s q : PS) (start : Int) (hs : s.WF) (hq : q.WF)
    (hok : (PS.setSubstring s start q).2 = none) :
    ∀ d, d < q.len → (PS.pyIndex? s.letters (start + d)).isSome := by
  rw [C18_set_general s q start hs hq] at hok
  intro d hd
  simpa using writeFrom_ok _ _ _ _ _ hok d hd

/-- Negative start, window entirely at negative indices: same as setting at
`start + len`; always succeeds. -/
theorem C18_set_spec_neg (s q : PS) (start : Int) (hs : s.WF) (hq : q.WF)
    (h0 : start < 0) (h1 : -(s.len : Int) ≤ start) (h2 : start + q.len ≤ 0) :
    PS.setSubstring s start q =
      (PS.ofLetters (s.letters.take (start + s.len).toNat ++ q.letters
          ++ s.letters.drop ((start + s.len).toNat + q.len)), none) := by
  obtain ⟨w, rfl⟩ : ∃ w, s = PS.ofLetters w := ⟨_, eq_ofLetters_of_WF s hs⟩
  obtain ⟨v, rfl⟩ : ∃ v, q = PS.ofLetters v := ⟨_, eq_ofLetters_of_WF q hq⟩
  rw [C18_set_general _ _ _ hs hq]
  simp only [letters_ofLetters, len_ofLetters] at *
  rw [writeFrom_negwin w v start h0 h1 h2]

/-- Negative start in general (wrap-around): the first `-start` letters of `q`
are set at `start + len` (this never fails), the remaining ones from index 0. -/
theorem C18_set_spec_wrap (s q : PS) (start : Int) (hs : s.WF) (hq : q.WF)
    (h0 : start < 0) (h1 : -(s.len : Int) ≤ start) :
    (PS.setSubstring s (start + s.len) (PS.ofLetters (q.letters.take (-start).toNat))).2 = none ∧
    PS.setSubstring s start q =
      PS.setSubstring
        (PS.setSubstring s (start + s.len) (PS.ofLetters (q.letters.take (-start).toNat))).1
        0 (PS.ofLetters (q.letters.drop (-start).toNat)) := by
  obtain ⟨w, rfl⟩ : ∃ w, s = PS.ofLetters w := ⟨_, eq_ofLetters_of_WF s hs⟩
  obtain ⟨v, rfl⟩ : ∃ v, q = PS.ofLetters v := ⟨_, eq_ofLetters_of_WF q hq⟩
  simp only [letters_ofLetters, len_ofLetters] at h1 ⊢
  have hw1 := wf_ofLetters (v.take (-start).toNat)
  have hw2 := wf_ofLetters (v.drop (-start).toNat)
  constructor
  · rw [(C18_set_spec _ _ _ hs hw1 (by omega)).2]
    simp only [len_ofLetters, List.length_take]
    rw [if_pos (by omega)]
  · rw [C18_set_general _ _ _ hs hq, C18_set_general _ _ _ hs hw1,
      C18_set_general _ _ _ (wf_ofLetters _) hw2]
    simp only [letters_ofLetters, len_ofLetters]
    rw [writeFrom_neg w v start h0 h1]

/-- Start below `-len`: the very first assignment raises, nothing is changed. -/
theorem C18_set_spec_below (s q : PS) (start : Int) (hs : s.WF) (hq : q.WF)
    (h0 : start < -(s.len : Int)) :
    PS.setSubstring s start q = (s, if q.len = 0 then none else some Err.indexError) := by
  obtain ⟨w, rfl⟩ : ∃ w, s = PS.ofLetters w := ⟨_, eq_ofLetters_of_WF s hs⟩
  obtain ⟨v, rfl⟩ : ∃ v, q = PS.ofLetters v := ⟨_, eq_ofLetters_of_WF q hq⟩
  rw [C18_set_general _ _ _ hs hq]
  simp only [letters_ofLetters, len_ofLetters] at *
  rw [writeFrom_below w v start h0]

example : (PS.setSubstring (PS.ofLetters [.X, .Y, .Z, .I, .X]) 1 (PS.ofLetters [.Z, .Z])).2 = none
    ∧ (PS.setSubstring (PS.ofLetters [.X, .Y, .Z, .I, .X]) 1 (PS.ofLetters [.Z, .Z])).1.letters
        = [.X, .Z, .Z, .I, .X] := by decide
example : (PS.setSubstring (PS.ofLetters [.X, .Y, .Z, .I, .X]) 4 (PS.ofLetters [.Z, .Z])).2
        = some .indexError
    ∧ (PS.setSubstring (PS.ofLetters [.X, .Y, .Z, .I, .X]) 4 (PS.ofLetters [.Z, .Z])).1.letters
        = [.X, .Y, .Z, .I, .Z] := by decide
example : PS.setSubstring (PS.ofLetters [.X, .Y, .Z, .I, .X]) (-3) (PS.ofLetters [.Z, .Z])
    = (PS.ofLetters [.X, .Y, .Z, .Z, .X], none) := by decide
/-- wrap-around overwriting itself: len 2, start -2, four letters -/
example : PS.setSubstring (PS.ofLetters [.I, .I]) (-2) (PS.ofLetters [.X, .Y, .Z, .Z])
    = (PS.ofLetters [.Z, .Z], none) := by decide
example : PS.setSubstring (PS.ofLetters [.X, .Y]) (-3) (PS.ofLetters [.Z])
    = (PS.ofLetters [.X, .Y], some .indexError) := by decide

/-! ## Tensor, expand, copy

Object independence (no aliasing of the bit vectors between the result and the
operands) is not expressible in a value model; it is checked by the
differential harness (edits of the result / operand after `tensor`, `expand`,
`copy` in `hist` scripts).  Here: the results are synchronised and have the
concatenated / padded / same text. -/

theorem C18_fresh_tensor (p q : PS) (hp : p.WF) (hq : q.WF) :
    (PS.tensor p q).WF ∧ (PS.tensor p q).letters = p.letters ++ q.letters := by
  constructor
  · apply wf_ofBits
    have := hp.2.2; have := hq.2.2
    simp only [List.length_append]; omega
  · simp [PS.tensor, PS.letters, PS.ofBits, decode_append _ _ hp.2.2]

theorem C18_fresh_expand (p : PS) (hp : p.WF) (n : Int) :
    (p.len ≤ n → ∃ r, PS.expand p n = .ok r ∧ r.WF ∧
        r.letters = p.letters ++ List.replicate (n.toNat - p.len) Letter.I ∧ r.len = n.toNat)
    ∧ (n < p.len → PS.expand p n = .error Err.valueError) := by
  constructor
  · intro h
    have hI : (PS.ofBits (List.replicate (2 * (n - (p.len : Int)).toNat) false)).WF :=
      wf_ofBits _ (by simp)
    refine ⟨PS.tensor p (PS.ofBits (List.replicate (2 * (n - (p.len : Int)).toNat) false)), ?_, ?_, ?_, ?_⟩
    · simp only [PS.expand, PS.identity]
      rw [if_neg (by omega)]
      rfl
    · exact (C18_fresh_tensor p _ hp hI).1
    · rw [(C18_fresh_tensor p _ hp hI).2]
      congr 1
      rw [show (n - (p.len : Int)).toNat = n.toNat - p.len by omega]
      simp only [PS.letters, PS.ofBits, ← encode_replicate_I, decode_encode]
    · have := hp.2.2
      simp only [PS.tensor, PS.len, PS.ofBits, List.length_append, List.length_replicate] at *
      omega
  · intro h
    simp only [PS.expand, PS.identity]
    rw [if_pos (by omega)]
    rfl

theorem C18_fresh_copy (p : PS) (hp : p.WF) :
    (PS.copy p).WF ∧ (PS.copy p).letters = p.letters ∧ PS.copy p = p := by
  refine ⟨wf_ofBits _ hp.2.2, rfl, ?_⟩
  obtain ⟨b, e, o⟩ := p
  obtain ⟨h1, h2, _⟩ := hp
  simp only at h1 h2
  subst h1 h2
  rfl

/-- `tensor`, `expand`, `copy` of synchronised strings are synchronised and carry
the concatenated / padded / same text. -/
theorem C18_fresh (p q : PS) (hp : p.WF) (hq : q.WF) (n : Int) :
    ((PS.tensor p q).WF ∧ (PS.tensor p q).letters = p.letters ++ q.letters)
    ∧ ((p.len ≤ n → ∃ r, PS.expand p n = .ok r ∧ r.WF ∧
          r.letters = p.letters ++ List.replicate (n.toNat - p.len) Letter.I ∧ r.len = n.toNat)
       ∧ (n < p.len → PS.expand p n = .error Err.valueError))
    ∧ ((PS.copy p).WF ∧ (PS.copy p).letters = p.letters ∧ PS.copy p = p) :=
  ⟨C18_fresh_tensor p q hp hq, C18_fresh_expand p hp n, C18_fresh_copy p hp⟩

example : (PS.tensor (PS.inc (PS.ofLetters [.X, .Y])) (PS.ofLetters [.Z])).letters = [.Y, .I, .Z] :=
  (C18_fresh_tensor _ _ (by decide) (by decide)).2
example : PS.tensor (PS.ofLetters [.X, .Y]) (PS.ofLetters [.Z]) = PS.ofLetters [.X, .Y, .Z] := by decide
example : PS.expand (PS.ofLetters [.X, .Y]) 4 = .ok (PS.ofLetters [.X, .Y, .I, .I]) := by rfl
example : PS.expand (PS.ofLetters [.X, .Y]) 2 = .ok (PS.ofLetters [.X, .Y]) := by rfl
example : PS.expand (PS.ofLetters [.X, .Y]) 1 = .error .valueError := by rfl
example : PS.expand (PS.ofLetters [.X, .Y]) (-1) = .error .valueError := by rfl
example : PS.copy (PS.inc (PS.ofLetters [.X, .Y])) = PS.ofLetters [.Y, .I] := by decide

/-! ## Enumeration -/

/-- `inc` is `+1` on the index, modulo `2^(number of bits)`. -/
theorem C18_inc_index (b : List Bool) :
    PS.bitsToNat (PS.incBits b) = (PS.bitsToNat b + 1) % 2 ^ b.length :=
  bitsToNat_incBits b

/-- `gen_all_pauli_strings`: the indices of the produced strings are exactly
`0, 1, …, 4^n - 1` in this order; every produced string is synchronised and has
length `n`. -/
theorem C18_enum (n : Nat) :
    (PS.genAll n).map (fun p => PS.bitsToNat p.bits) = List.range (4 ^ n)
    ∧ ∀ p ∈ PS.genAll n, p.WF ∧ p.len = n := by
  have h4 : 2 ^ (2 * n) = 4 ^ n := by rw [Nat.pow_mul]
  have hz : PS.bitsToNat (PS.ident n).bits = 0 := by
    simp [PS.ident, PS.ofBits, bitsToNat_replicate_false]
  obtain ⟨h1, h2⟩ := genAllFrom_spec (PS.ident n) (PS.ofBits (List.replicate (2 * n) true)) (2 * n)
    (by simp [PS.ident, PS.ofBits]) rfl (4 ^ n)
    (by rw [h4]; exact Nat.le_trans (Nat.sub_le _ _) (Nat.sub_le _ _))
  constructor
  · rw [PS.genAll, h1, hz, h4, Nat.sub_zero, List.range_eq_range']
  · intro p hp
    obtain ⟨e1, e2⟩ := h2 p hp
    constructor
    · rw [e1]; exact wf_ofBits _ (by omega)
    · simp only [PS.len, e2]; omega

theorem C18_enum_length (n : Nat) : (PS.genAll n).length = 4 ^ n := by
  have := congrArg List.length (C18_enum n).1
  simpa using this

/-- no string is produced twice -/
theorem C18_enum_nodup (n : Nat) : (PS.genAll n).Nodup := by
  have h : ((PS.genAll n).map (fun p => PS.bitsToNat p.bits)).Nodup := by
    rw [(C18_enum n).1]; exact List.nodup_range
  rw [List.nodup_iff_pairwise_ne, List.pairwise_map] at h
  exact h.imp (fun hne heq => hne (by rw [heq]))

/-- index order: the `k`-th produced string has index `k` -/
theorem C18_enum_index (n : Nat) (k : Nat) (hk : k < (PS.genAll n).length) :
    PS.bitsToNat (PS.genAll n)[k].bits = k
    ∧ (0 < n → PS.getIndex (PS.genAll n)[k] = .ok k) := by
  have h := (C18_enum n).1
  have e : PS.bitsToNat (PS.genAll n)[k].bits = k := by
    have := congrArg (fun l => l[k]?) h
    simp only [List.getElem?_map, List.getElem?_eq_getElem hk, Option.map_some] at this
    rw [List.getElem?_range (by rw [← C18_enum_length n]; exact hk)] at this
    exact Option.some.inj this
  refine ⟨e, ?_⟩
  intro hn
  have hl := ((C18_enum n).2 _ (List.getElem_mem hk)).2
  have : ¬ (PS.genAll n)[k].bits.isEmpty = true := by
    intro he
    rw [List.isEmpty_iff] at he
    simp only [PS.len, he] at hl
    simp at hl
    omega
  simp only [PS.getIndex, this, e]
  rfl

/-- every synchronised string of length `n` is produced -/
theorem C18_enum_complete (n : Nat) (p : PS) (hp : p.WF) (hn : p.len = n) : p ∈ PS.genAll n := by
  have hl : p.bits.length = 2 * n := by
    have := hp.2.2
    simp only [PS.len] at hn
    omega
  have hlt : PS.bitsToNat p.bits < 4 ^ n := by
    have := bitsToNat_lt p.bits
    rwa [hl, Nat.pow_mul] at this
  have hm : PS.bitsToNat p.bits ∈ (PS.genAll n).map (fun p => PS.bitsToNat p.bits) := by
    rw [(C18_enum n).1]; exact List.mem_range.mpr hlt
  obtain ⟨p', hp', he⟩ := List.mem_map.mp hm
  obtain ⟨hw', hn'⟩ := (C18_enum n).2 p' hp'
  have hl' : p'.bits.length = 2 * n := by
    have := hw'.2.2
    simp only [PS.len] at hn'
    omega
  have hb : p'.bits = p.bits := bitsToNat_inj _ _ (by omega) he
  have : p' = p := by
    rw [C18_observe p' hw', C18_observe p hp]
    simp only [PS.letters, hb]
  exact this ▸ hp'

/-- Exactly once: membership in `genAll n` is being a synchronised string of
length `n`, and there are no repetitions. -/
theorem C18_enum_exactly_once (n : Nat) :
    (∀ p, p ∈ PS.genAll n ↔ (p.WF ∧ p.len = n)) ∧ (PS.genAll n).Nodup
      ∧ (PS.genAll n).length = 4 ^ n :=
  ⟨fun p => ⟨(C18_enum n).2 p, fun h => C18_enum_complete n p h.1 h.2⟩,
   C18_enum_nodup n, C18_enum_length n⟩

example : ∀ p ∈ PS.genAll 3, p.WF ∧ p.len = 3 := (C18_enum 3).2
example : (PS.genAll 1).map PS.letters = [[.I], [.Z], [.X], [.Y]] := by decide
example : (PS.genAll 2).map (fun p => PS.bitsToNat p.bits) = List.range 16 := by decide
example : (PS.genAll 0) = [PS.ofLetters []] := by decide
example : PS.bitsToNat (PS.incBits [true, true, true]) = 0
    ∧ PS.bitsToNat (PS.incBits [false, true, true]) = 4 := by decide

end C18
end PauLie
