/-
Property C19 (two-local reference table), more rows for ALL n ≥ 3: the free-fermion families

  a2  (`XY`,`YX`)       table `so(n)+so(n)`   closure = two commuting, disjoint blocks of n(n−1)/2
  a4  (`XX`,`YY`)       table `so(n)+so(n)`   closure = two commuting, disjoint blocks of n(n−1)/2
  a8  (`XX`,`XZ`)       table `so(2n−1)`      closure = all bilinears of 2n−1 Majoranas
  a14 (`XX`,`YY`,`XY`)  table `so(2n)`        closure = all bilinears of 2n Majoranas

Each theorem gives the commutator closure of the translated generators `klocalBits f n`
(= `get_pauli_string(G_LIE[f], n=n)` of the model) in closed form and proves that the number of
Pauli strings in it is the dimension of the table row `tlName f n`.  With `C19_a0/a1/b0/b1/b3` of
`Properties/C19.lean` the DIMENSION clause of C19 is proved for nine of the 28 families at every
n ≥ 3 (`C19_dimension`).

How: every translated generator is a bilinear `w_p + w_q` of a family of pairwise anticommuting
strings (Jordan–Wigner Majoranas, `Proofs/C19MajSite.lean`); bilinears obey the relations of the
units `E_pq` of so(M) (`Proofs/C19Maj.lean`); a2 and a4 split into two mutually commuting paths and
use the componentwise closure theorem (`Proofs/C19Comp.lean`, `Properties/C01Comp.lean`).

The invariants beyond the dimension (the decidable `rowOK`) are proved for these families, for all
n ≥ 3, in `Properties/C19Rows.lean`.  NOT proved: the other 19 families (a3, a5–a7, a9–a13,
a15–a22, b2, b4: exponential algebras - the content of the two-local classification).  By the
anticommutation graphs of the translated generators (computed n = 3…7) no other family consists of
path / star / type-A / commuting components, and no other family is free-fermionic.
-/
import PauLieVerif.Properties.C19
import PauLieVerif.Proofs.C19Free

namespace PauLie
namespace C19
open TwoLocal Classify Closure

theorem dimOfName_so (m : Nat) : dimOfName [so m] = m * (m - 1) / 2 := by
  simp [dimOfName, Summand.dim, so, dimSO]

theorem dimOfName_so_so (m : Nat) : dimOfName [so m, so m] = m * (m - 1) / 2 + m * (m - 1) / 2 := by
  simp [dimOfName, Summand.dim, so, dimSO]

/-- **a2** (`XY`, `YX`; table `so(n)+so(n)`): for every n ≥ 3 the commutator closure of the translates
is the union of two blocks - all products `(Z^a Y)(Z^b Y)` and all products `(Z^a X)(Z^b X)`, a < b < n,
of Jordan–Wigner strings - every member of one block commutes with every member of the other, no
string is in both, and the closure has n(n−1)/2 + n(n−1)/2 members: the dimension of the row. -/
theorem C19_a2 (n : Nat) (hn : 3 ≤ n) :
    (∀ x, Clo (klocalBits .a2 n) x ↔
      (∃ a b, a < b ∧ b < n ∧ x = bil (mZ n) (2 * a + 1) (2 * b + 1)) ∨
      (∃ a b, a < b ∧ b < n ∧ x = bil (mZ n) (2 * a) (2 * b))) ∧
    (∀ a b c d, a < b → b < n → c < d → d < n →
      omega (bil (mZ n) (2 * a + 1) (2 * b + 1)) (bil (mZ n) (2 * c) (2 * d)) = false ∧
      bil (mZ n) (2 * a + 1) (2 * b + 1) ≠ bil (mZ n) (2 * c) (2 * d)) ∧
    (closureList (klocalBits .a2 n)).1.length = n * (n - 1) / 2 + n * (n - 1) / 2 ∧
    tlName .a2 n = some [so n, so n] ∧ dimOfName [so n, so n] = n * (n - 1) / 2 + n * (n - 1) / 2 := by
  have hb : klocalBits .a2 n = klocalV n gensA2 :=
    klocalBits_eq (gs := gensA2) rfl (by omega) (by simp [gensA2]) (by simp [gensA2, vXY, vYX])
  rw [hb]
  exact ⟨(blocks_a2 n).1, (blocks_a2 n).2.1, (blocks_a2 n).2.2, rfl, dimOfName_so_so n⟩

/-- **a4** (`XX`, `YY`; table `so(n)+so(n)`): the translates form two mutually commuting paths
`XX_0, YY_1, XX_2, …` and `YY_0, XX_1, YY_2, …`; the closure is the union of the bilinears along the
Majorana sequences `1,2,5,6,…` (`sA4`) and `0,3,4,7,…` (`tA4`); the blocks commute, are disjoint, and
the closure has n(n−1)/2 + n(n−1)/2 members: the dimension of the row. -/
theorem C19_a4 (n : Nat) (hn : 3 ≤ n) :
    (∀ x, Clo (klocalBits .a4 n) x ↔
      (∃ a b, a < b ∧ b < n ∧ x = bil (mZ n) (sA4 a) (sA4 b)) ∨
      (∃ a b, a < b ∧ b < n ∧ x = bil (mZ n) (tA4 a) (tA4 b))) ∧
    (∀ a b c d, a < b → b < n → c < d → d < n →
      omega (bil (mZ n) (sA4 a) (sA4 b)) (bil (mZ n) (tA4 c) (tA4 d)) = false ∧
      bil (mZ n) (sA4 a) (sA4 b) ≠ bil (mZ n) (tA4 c) (tA4 d)) ∧
    (closureList (klocalBits .a4 n)).1.length = n * (n - 1) / 2 + n * (n - 1) / 2 ∧
    tlName .a4 n = some [so n, so n] ∧ dimOfName [so n, so n] = n * (n - 1) / 2 + n * (n - 1) / 2 := by
  have hb : klocalBits .a4 n = klocalV n gensA4 :=
    klocalBits_eq (gs := gensA4) rfl (by omega) (by simp [gensA4]) (by simp [gensA4, vXX, vYY])
  rw [hb]
  exact ⟨(blocks_a4 n).1, (blocks_a4 n).2.1, (blocks_a4 n).2.2, rfl, dimOfName_so_so n⟩

/-- **a8** (`XX`, `XZ`; table `so(2n−1)`): the closure of the translates is the set of all products
of two of the 2n−1 pairwise anticommuting strings `Z_0, Y_0 X_1, Y_0 Z_1, Y_0 Y_1 X_2, …`
(`mY' n`); it has (2n−1)(2n−2)/2 members: the dimension of the row. -/
theorem C19_a8 (n : Nat) (hn : 3 ≤ n) :
    (∀ x, Clo (klocalBits .a8 n) x ↔ ∃ a b, a < b ∧ b < 2 * n - 1 ∧ x = bil (mY' n) a b) ∧
    (closureList (klocalBits .a8 n)).1.length = (2 * n - 1) * (2 * n - 1 - 1) / 2 ∧
    tlName .a8 n = some [so (2 * n - 1)] ∧ dimOfName [so (2 * n - 1)] = (2 * n - 1) * (2 * n - 1 - 1) / 2 := by
  have hb : klocalBits .a8 n = klocalV n gensA8 :=
    klocalBits_eq (gs := gensA8) rfl (by omega) (by simp [gensA8]) (by simp [gensA8, vXX, vXZ])
  rw [hb]
  exact ⟨clo_a8, card_clo_a8, rfl, dimOfName_so _⟩

/-- **a14** (`XX`, `YY`, `XY`; table `so(2n)`): the closure of the translates is the set of all
products of two of the 2n Jordan–Wigner strings `Z^k X`, `Z^k Y` (`mZ n`); it has 2n(2n−1)/2
members: the dimension of the row. -/
theorem C19_a14 (n : Nat) (hn : 3 ≤ n) :
    (∀ x, Clo (klocalBits .a14 n) x ↔ ∃ a b, a < b ∧ b < 2 * n ∧ x = bil (mZ n) a b) ∧
    (closureList (klocalBits .a14 n)).1.length = 2 * n * (2 * n - 1) / 2 ∧
    tlName .a14 n = some [so (2 * n)] ∧ dimOfName [so (2 * n)] = 2 * n * (2 * n - 1) / 2 := by
  have hb : klocalBits .a14 n = klocalV n gensA14 :=
    klocalBits_eq (gs := gensA14) rfl (by omega) (by simp [gensA14]) (by simp [gensA14, vXX, vYY, vXY])
  rw [hb]
  exact ⟨clo_a14 (by omega), card_clo_a14 (by omega), rfl, dimOfName_so _⟩

/-- the dimension clause of a row: the number of Pauli strings in the commutator closure of the
translated generators is the dimension of the algebra the table names -/
def DimRow (f : Fam) (n : Nat) : Prop :=
  ∃ nm, tlName f n = some nm ∧ (closureList (klocalBits f n)).1.length = dimOfName nm

theorem dimRow_of_abelian {f : Fam} {gs : List V} (hf : f.gensPS = gs.map PS.ofBits) {n k : Nat}
    (hn : 2 ≤ n) (hne : gs ≠ []) (hg : ∀ g ∈ gs, g.length = 4) (h : AbelianRow f n k) : DimRow f n := by
  obtain ⟨hclo, hnd, hlen, ht, _, _⟩ := h
  refine ⟨[u1 k], ht, ?_⟩
  have hU : Uniform n (klocalBits f n) := by
    rw [klocalBits_eq hf hn hne hg]; exact uniform_klocalV hg
  rw [← clo_card hU hnd (fun x => (hclo x).symm), hlen]
  simp [dimOfName, dim_u1]

/-- **C19, dimension clause, nine families for ALL n ≥ 3**: for a0, a1, a2, a4, a8, a14, b0, b1, b3
the commutator closure of the translated generators has exactly the dimension of the table row. -/
theorem C19_dimension (n : Nat) (hn : 3 ≤ n) :
    DimRow .a0 n ∧ DimRow .a1 n ∧ DimRow .a2 n ∧ DimRow .a4 n ∧ DimRow .a8 n ∧ DimRow .a14 n ∧
    DimRow .b0 n ∧ DimRow .b1 n ∧ DimRow .b3 n := by
  refine ⟨?_, ?_, ?_, ?_, ?_, ?_, ?_, ?_, ?_⟩
  · exact dimRow_of_abelian (gs := [vXX]) rfl (by omega) (by simp) (by simp [vXX]) (C19_a0 n hn)
  · obtain ⟨_, h2, h3, h4⟩ := C19_a1 n hn
    exact ⟨_, h3, by rw [h2, h4]⟩
  · obtain ⟨_, _, h2, h3, h4⟩ := C19_a2 n hn
    exact ⟨_, h3, by rw [h2, h4]⟩
  · obtain ⟨_, _, h2, h3, h4⟩ := C19_a4 n hn
    exact ⟨_, h3, by rw [h2, h4]⟩
  · obtain ⟨_, h2, h3, h4⟩ := C19_a8 n hn
    exact ⟨_, h3, by rw [h2, h4]⟩
  · obtain ⟨_, h2, h3, h4⟩ := C19_a14 n hn
    exact ⟨_, h3, by rw [h2, h4]⟩
  · exact dimRow_of_abelian (gs := [vXI, vIX]) rfl (by omega) (by simp) (by simp [vXI, vIX]) (C19_b0 n hn)
  · exact dimRow_of_abelian (gs := [vXX, vXI, vIX]) rfl (by omega) (by simp) (by simp [vXX, vXI, vIX])
      (C19_b1 n hn)
  · obtain ⟨_, h2, h3, h4⟩ := C19_b3 n hn
    exact ⟨_, h3, by rw [h2, h4]⟩

/-- **C19, partial (extended).**  Proved: (i) for ALL n ≥ 3 the rows a0, b0, b1 are correct with all
invariants; (ii) for ALL n ≥ 3 the rows a0, a1, a2, a4, a8, a14, b0, b1, b3 have the dimension of the
closure, whose members are known in closed form (`C19_a1`, `C19_a2`, `C19_a4`, `C19_a8`, `C19_a14`,
`C19_b3`); (iii) at n = 3 the kernel decides every row - all correct except exactly a11, a12, a17;
(iv) no row is `None`.  Missing for the full statement: the other 19 families for n ≥ 4, the
invariants beyond the dimension for a1, a2, a4, a8, a14, b3 (decided per (family, n) by the compiled
verified enumerator, n ≤ 8), and the whole classifier clause (differential execution only). -/
theorem C19_partial_more :
    (∀ n, 3 ≤ n → rowOK .a0 n = true ∧ rowOK .b0 n = true ∧ rowOK .b1 n = true) ∧
    (∀ n, 3 ≤ n → DimRow .a0 n ∧ DimRow .a1 n ∧ DimRow .a2 n ∧ DimRow .a4 n ∧ DimRow .a8 n ∧ DimRow .a14 n ∧
      DimRow .b0 n ∧ DimRow .b1 n ∧ DimRow .b3 n) ∧
    (∀ f : Fam, f ≠ .a11 → f ≠ .a12 → f ≠ .a17 → rowOK f 3 = true) ∧
    (∀ (f : Fam) (n : Nat), (tlName f n).isSome = true) :=
  ⟨C19_partial.1, C19_dimension, C19_partial.2.1, C19_partial.2.2⟩

/-! non-vacuity: the closed forms against the verified enumeration, by kernel evaluation -/
example : (closureList (klocalBits .a2 4)).1.length = 12 ∧ (closureList (klocalBits .a4 4)).1.length = 12 := by
  decide +kernel
example : (closureList (klocalBits .a8 3)).1.length = 10 ∧ (closureList (klocalBits .a14 3)).1.length = 15 := by
  decide +kernel
example : bil (mZ 3) 1 3 = [true, false, true, true, false, false] ∧ sA4 2 = 5 ∧ tA4 3 = 7 := by decide
example : klocalBits .a4 3 = [[true, false, true, false, false, false], [false, false, true, false, true, false],
    [true, true, true, true, false, false], [false, false, true, true, true, true]] := by decide +kernel

end C19
end PauLie
