/-
Property C09, second clause, for the model of `Classification.get_algebra()` and
`Classification.get_dla_dim()` (Model/Classify.lean):

  "... the reported dynamical-Lie-algebra dimension ... equals the dimension of the algebra
   named by the classifier (sum over summands, multiplicities and u(1) factors included)."

`C09_name_dim` holds for EVERY classification (list of morphs), whatever the legs are: the
number `get_dla_dim()` returns is the sum of `mult * dim(type(size))` over the summands of the
name `get_algebra()` returns, and one raises exactly when the other does.  (The first clause,
dimension = size of the commutator closure, is the dimension component of C01 and is decided
per input with the verified closure checker.)
-/
import PauLieVerif.Model.Classify

namespace PauLie
namespace C09
open Classify

/-- dimension of one copy -/
def factor (ty : TypeAlgebra) (size : Nat) : Nat :=
  match ty with
  | .U => 1 | .SU => dimSU size | .SP => dimSP size | .SO => dimSO size

theorem dim_eq (s : Summand) : s.dim = s.mult * factor s.ty s.size := by
  cases s with | mk ty size mult => cases ty <;> rfl

def sumDim (l : List Summand) : Nat := (l.map Summand.dim).sum

theorem sumDim_perm {l l' : List Summand} (h : List.Perm l l') : sumDim l = sumDim l' := by
  induction h with
  | nil => rfl
  | cons x _ ih => simp only [sumDim, List.map_cons, List.sum_cons] at ih ⊢; omega
  | swap x y l => simp only [sumDim, List.map_cons, List.sum_cons]; omega
  | trans _ _ ih1 ih2 => exact ih1.trans ih2

def sameName (t s : Summand) : Bool := t.ty == s.ty && t.size == s.size

/-- names pairwise distinct -/
def NodupNames : List Summand → Prop
  | [] => True
  | t :: rest => (∀ u ∈ rest, sameName u t = false) ∧ NodupNames rest

theorem sumDim_append (a b : List Summand) : sumDim (a ++ b) = sumDim a + sumDim b := by
  simp [sumDim, List.sum_append]

/-- adding `s.mult` to the (unique) entry with the name of `s` adds `s.dim` -/
theorem bump_spec (s : Summand) : ∀ (acc : List Summand), NodupNames acc →
    acc.any (fun t => sameName t s) = true →
    sumDim (acc.map (fun t => if sameName t s then { t with mult := t.mult + s.mult } else t))
      = sumDim acc + s.dim ∧
    NodupNames (acc.map (fun t => if sameName t s then { t with mult := t.mult + s.mult } else t))
  | [], _, h => by simp at h
  | t :: rest, hnd, h => by
    obtain ⟨hd, hr⟩ := hnd
    by_cases hts : sameName t s = true
    · -- the head matches: nothing in the tail does
      have htail : ∀ u ∈ rest, sameName u s = false := by
        intro u hu
        have h1 := hd u hu
        simp only [sameName, Bool.and_eq_true, beq_iff_eq, Bool.and_eq_false_iff] at hts h1 ⊢
        rcases h1 with h1 | h1
        · left; rw [← hts.1]; exact h1
        · right; rw [← hts.2]; exact h1
      have hmap : rest.map (fun t => if sameName t s then { t with mult := t.mult + s.mult } else t) = rest := by
        rw [List.map_congr_left (g := id) (fun u hu => by simp [htail u hu]), List.map_id]
      constructor
      · simp only [List.map_cons, hts, if_true, hmap, sumDim, List.sum_cons]
        rw [dim_eq, dim_eq t, dim_eq s]
        simp only [sameName, Bool.and_eq_true, beq_iff_eq] at hts
        simp only [hts.1, hts.2]
        rw [Nat.add_mul]; omega
      · simp only [List.map_cons, hts, if_true, hmap]
        refine ⟨fun u hu => ?_, hr⟩
        have := hd u hu
        simpa [sameName] using this
    · have hts' : sameName t s = false := by simpa using hts
      have hany : rest.any (fun t => sameName t s) = true := by
        simpa [List.any_cons, hts'] using h
      obtain ⟨ih1, ih2⟩ := bump_spec s rest hr hany
      constructor
      · simp only [List.map_cons, hts', Bool.false_eq_true, if_false, sumDim, List.sum_cons] at ih1 ⊢
        omega
      · simp only [List.map_cons, hts', Bool.false_eq_true, if_false]
        refine ⟨fun u hu => ?_, ih2⟩
        rcases List.mem_map.mp hu with ⟨v, hv, hvu⟩
        have := hd v hv
        subst hvu
        by_cases hvs : sameName v s = true
        · simp only [hvs, if_true]; simpa [sameName] using this
        · simp only [hvs, Bool.false_eq_true, if_false]; exact this

theorem nodup_append_new (acc : List Summand) (s : Summand) (hnd : NodupNames acc)
    (h : acc.any (fun t => sameName t s) = false) : NodupNames (acc ++ [s]) := by
  induction acc with
  | nil => simp [NodupNames]
  | cons t rest ih =>
    obtain ⟨hd, hr⟩ := hnd
    simp only [List.any_cons, Bool.or_eq_false_iff] at h
    show (∀ u ∈ rest ++ [s], sameName u t = false) ∧ NodupNames (rest ++ [s])
    refine ⟨fun u hu => ?_, ih hr h.2⟩
    rcases List.mem_append.mp hu with hu | hu
    · exact hd u hu
    · simp only [List.mem_singleton] at hu; subst hu
      have := h.1
      simp only [sameName, Bool.and_eq_false_iff] at this ⊢
      rcases this with h1 | h1
      · left; rw [beq_eq_false_iff_ne] at h1 ⊢; exact fun hc => h1 hc.symm
      · right; rw [beq_eq_false_iff_ne] at h1 ⊢; exact fun hc => h1 hc.symm

theorem fold_spec : ∀ (l acc : List Summand), NodupNames acc →
    sumDim (l.foldl (fun (acc : List Summand) s =>
      if acc.any (fun t => t.ty == s.ty && t.size == s.size) then
        acc.map (fun t => if t.ty == s.ty && t.size == s.size then { t with mult := t.mult + s.mult } else t)
      else acc ++ [s]) acc) = sumDim acc + sumDim l
  | [], acc, _ => by simp [sumDim]
  | s :: l, acc, hnd => by
    simp only [List.foldl_cons]
    by_cases h : acc.any (fun t => t.ty == s.ty && t.size == s.size) = true
    · obtain ⟨h1, h2⟩ := bump_spec s acc hnd h
      rw [if_pos h]
      refine (fold_spec l _ h2).trans ?_
      rw [h1]
      simp only [sumDim, List.map_cons, List.sum_cons]; omega
    · rw [if_neg h]
      have h' : acc.any (fun t => sameName t s) = false := by simpa [sameName] using h
      refine (fold_spec l _ (nodup_append_new acc s hnd h')).trans ?_
      rw [sumDim_append]
      simp only [sumDim, List.map_cons, List.sum_cons, List.map_nil, List.sum_nil]; omega

/-- merging equal names and sorting keeps the total dimension -/
theorem mergeSummands_dim (l : List Summand) : sumDim (mergeSummands l) = sumDim l := by
  unfold mergeSummands
  simp only
  rw [sumDim_perm (List.mergeSort_perm _ _), fold_spec l [] trivial]
  simp [sumDim]

/-- **C09, the reported dimension is the dimension of the reported name** — for every
classification: `get_dla_dim()` answers iff `get_algebra()` answers, and then with the sum
over the summands of the name of `multiplicity × dimension` (u(1) counted as 1). -/
theorem C09_name_dim (ms : List MorphR) :
    (∀ a, algebraOfMorphs ms = .ok a → dlaDimOfMorphs ms = .ok (sumDim a)) ∧
    (∀ e, algebraOfMorphs ms = .error e → dlaDimOfMorphs ms = .error e) := by
  unfold algebraOfMorphs dlaDimOfMorphs
  cases h : summandsOf ms with
  | error e => simp [bind, Except.bind]
  | ok l =>
    simp only [bind, Except.bind, pure, Except.pure]
    refine ⟨fun a ha => ?_, fun e he => by cases he⟩
    cases ha
    rw [mergeSummands_dim]
    rfl

/-- non-vacuity: `2*so(3) + u(1)` has dimension 7 (the witness of the repaired `get_dla_dim` defect) -/
example : sumDim (mergeSummands [⟨.SO, 3, 1⟩, ⟨.U, 1, 1⟩, ⟨.SO, 3, 1⟩]) = 7 := by
  rw [mergeSummands_dim]; decide

end C09
end PauLie
