/-
Graph helpers next to property C14 ("commutants, anticommutation and commutator graphs are
exact"): characterisation theorems, for ALL n and ALL collections, of the executable model
`PauLie.GraphExtra` (Model/GraphExtra.lean) of

  `PauliString.get_commutants / get_anti_commutants / get_nested`,
  `PauliStringCollection.get_anti_commutants / get_commutates / get_anti_commutates /
   get_frame_potential`, `application.charges.non_commuting_charges`.

Vocabulary as in Properties/C14.lean: `Uniform n G` (synchronised strings of one length `n`, what
the collection constructor produces), `anti p q := PS.commutesWith p q = .ok false`.
Only property theorems and `example`s live here.
-/
import PauLieVerif.Proofs.C14ExtraLemmas

namespace PauLie
namespace C14Extra
open PS Graph GraphExtra C14

def exG : List PS := [PS.ofLetters [.X, .I], PS.ofLetters [.Z, .I], PS.ofLetters [.I, .X]]
example : Uniform 2 exG := by decide

/-! ## String level -/

/-- `P.get_commutants(L)`: exactly the members of the search list `L` that commute with `P`, in
the order of `L` (repetitions kept). -/
theorem C14Extra_ps_commutants {n : Nat} {p : PS} {L : List PS} (hp : p.WF ∧ p.len = n) (hL : Uniform n L) :
    ∃ R, psCommutants p (some L) = .ok R ∧ R.Sublist L ∧
      ∀ q, q ∈ R ↔ (q ∈ L ∧ PS.commutesWith p q = .ok true) :=
  ⟨_, psCommutants_some hp hL, List.filter_sublist, fun q => by rw [List.mem_filter, cwB_iff]⟩

/-- `P.get_anti_commutants(L)`: exactly the members of `L` that anticommute with `P`, in order. -/
theorem C14Extra_ps_anticommutants {n : Nat} {p : PS} {L : List PS} (hp : p.WF ∧ p.len = n) (hL : Uniform n L) :
    ∃ R, psAntiCommutants p (some L) = .ok R ∧ R.Sublist L ∧ ∀ q, q ∈ R ↔ (q ∈ L ∧ anti p q) :=
  ⟨_, psAntiCommutants_some hp hL, List.filter_sublist, fun q => by rw [List.mem_filter, aB_iff]⟩

/-- without a search list: all `4^n` strings of the length of `P` are searched, in index order -/
theorem C14Extra_ps_all {n : Nat} {p : PS} (hp : p.WF ∧ p.len = n) :
    (∃ R, psCommutants p none = .ok R ∧ R.Sublist (PS.genAll n) ∧
      ∀ q, q ∈ R ↔ (q.WF ∧ q.len = n ∧ PS.commutesWith p q = .ok true)) ∧
    (∃ R, psAntiCommutants p none = .ok R ∧ R.Sublist (PS.genAll n) ∧
      ∀ q, q ∈ R ↔ (q.WF ∧ q.len = n ∧ anti p q)) := by
  refine ⟨⟨_, psCommutants_none hp, List.filter_sublist, fun q => ?_⟩,
          ⟨_, psAntiCommutants_none hp, List.filter_sublist, fun q => ?_⟩⟩
  · rw [List.mem_filter, cwB_iff, (C18.C18_enum_exactly_once n).1 q, and_assoc]
  · rw [List.mem_filter, aB_iff, (C18.C18_enum_exactly_once n).1 q, and_assoc]

/-- a search list holding a string of another length raises ValueError (whatever else it holds) -/
theorem C14Extra_ps_raises (p : PS) (L : List PS) (h : ∃ g ∈ L, g.len ≠ p.len) :
    psCommutants p (some L) = .error .valueError ∧ psAntiCommutants p (some L) = .error .valueError := by
  obtain ⟨g, hg, hl⟩ := h
  constructor
  · exact filterM_raises _ (commutesWith_cases p) L ⟨g, hg, commutesWith_len (Ne.symm hl)⟩
  · apply filterM_raises _ _ L ⟨g, hg, by simp [commutesWith_len (Ne.symm hl), bind, Except.bind]⟩
    intro a
    rcases commutesWith_cases p a with ⟨b, hb⟩ | hb
    · left; exact ⟨!b, by simp [hb, bind, Except.bind, pure, Except.pure]⟩
    · right; simp [hb, bind, Except.bind]

example : psCommutants (PS.ofLetters [.X, .I]) (some exG) = .ok [PS.ofLetters [.X, .I], PS.ofLetters [.I, .X]] := by
  decide
example : psAntiCommutants (PS.ofLetters [.X, .I]) (some (exG ++ [PS.ofLetters [.Z]])) = .error .valueError := by
  decide

/-- `P.get_nested(L)`: the distinct pairs `{g, g*P}` (smaller bit string first) over the members
`g` of `L` anticommuting with `P`; each pair once. -/
theorem C14Extra_nested {n : Nat} {p : PS} {L : List PS} (hp : p.WF ∧ p.len = n) (hL : Uniform n L) :
    ∃ R, psNested p (some L) = .ok R ∧ R.Nodup ∧
      ∀ a b, (a, b) ∈ R ↔ ∃ g ∈ L, anti p g ∧ ∃ adj, PS.multiply g p = .ok adj ∧
        (a, b) = if g.lt adj then (g, adj) else (adj, g) := by
  have hA : Uniform n (L.filter (aB p)) := filter_uniform hL _
  have hmap : (L.filter (aB p)).mapM (nestedPair p) = .ok ((L.filter (aB p)).map (pairOf p)) :=
    mapM_ok _ _ _ (fun g hg => (nestedPair_ok hp (hA g hg)).1)
  have hwf : ∀ y ∈ (L.filter (aB p)).map (pairOf p), y.1.WF ∧ y.2.WF := by
    intro y hy
    obtain ⟨g, hg, rfl⟩ := List.mem_map.mp hy
    exact (nestedPair_ok hp (hA g hg)).2
  obtain ⟨hn, hm⟩ := dedupPairs_spec _ hwf
  refine ⟨_, by simp only [psNested, psAntiCommutants_some hp hL, hmap, bind, Except.bind, pure, Except.pure], hn, ?_⟩
  intro a b
  rw [hm, List.mem_map]
  constructor
  · rintro ⟨g, hg, he⟩
    obtain ⟨hgL, hga⟩ := List.mem_filter.mp hg
    obtain ⟨adj, hadj, _, _⟩ := multiply_ok (hL g hgL).1 hp.1 ((hL g hgL).2.trans hp.2.symm)
    refine ⟨g, hgL, (aB_iff p g).mp hga, adj, hadj, ?_⟩
    rw [← he]; simp only [pairOf, hadj]
  · rintro ⟨g, hgL, hga, adj, hadj, he⟩
    refine ⟨g, List.mem_filter.mpr ⟨hgL, (aB_iff p g).mpr hga⟩, ?_⟩
    rw [he]; simp only [pairOf, hadj]

example : psNested (PS.ofLetters [.X]) none
    = .ok [(PS.ofLetters [.Z], PS.ofLetters [.Y])] := by decide

/-! ## `PauliStringCollection.get_anti_commutants` -/

/-- with a search collection `H` that is ANOTHER object: exactly the members of `H` that
anticommute with EVERY member of `G`, in the order of `H`. -/
theorem C14Extra_anticommutants {n : Nat} {G H : List PS} (hG : Uniform n G) (hne : G ≠ []) (hH : Uniform n H) :
    ∃ R, collAntiCommutants G (.other H) = .ok R ∧ R.Sublist H ∧
      ∀ q, q ∈ R ↔ (q ∈ H ∧ ∀ g ∈ G, anti g q) :=
  ⟨_, collAntiCommutants_other hG hne hH, List.filter_sublist, fun q => by
    simp only [List.mem_filter, List.all_eq_true, aB_iff]⟩

/-- with `None`: the search runs over all `4^n` strings -/
theorem C14Extra_anticommutants_all {n : Nat} {G : List PS} (hG : Uniform n G) (hne : G ≠ []) :
    ∃ R, collAntiCommutants G .none = .ok R ∧ R.Sublist (PS.genAll n) ∧
      ∀ q, q ∈ R ↔ (q.WF ∧ q.len = n ∧ ∀ g ∈ G, anti g q) :=
  ⟨_, collAntiCommutants_none hG hne, List.filter_sublist, fun q => by
    simp only [List.mem_filter, List.all_eq_true, aB_iff, (C18.C18_enum_exactly_once n).1 q, and_assoc]⟩

/-- **the aliased call** `G.get_anti_commutants(G)` (the collection itself as search list): the
inner iteration shares the cursor of the outer `for p in self`, so only the FIRST member is
consulted — the result is the members anticommuting with the first member. -/
theorem C14Extra_anticommutants_aliased {n : Nat} {p : PS} {rest : List PS} (hG : Uniform n (p :: rest)) :
    ∃ R, collAntiCommutants (p :: rest) .same = .ok R ∧ R.Sublist (p :: rest) ∧
      ∀ q, q ∈ R ↔ (q ∈ p :: rest ∧ anti p q) :=
  ⟨_, collAntiCommutants_same hG, List.filter_sublist, fun q => by rw [List.mem_filter, aB_iff]⟩

/-- ... which is NOT "the members anticommuting with every member": that set is always empty
(nothing anticommutes with itself), and it is what an equal collection held in another object
gives; witness `[XI, ZI, IX]`: aliased `[ZI]`, other object `[]`. -/
theorem C14Extra_anticommutants_aliased_differs :
    (∀ {n : Nat} {G : List PS}, Uniform n G → G ≠ [] → collAntiCommutants G (.other G) = .ok []) ∧
    collAntiCommutants exG .same = .ok [PS.ofLetters [.Z, .I]] ∧ collAntiCommutants exG (.other exG) = .ok [] := by
  refine ⟨?_, by decide, by decide⟩
  intro n G hG hne
  rw [collAntiCommutants_other hG hne hG, List.filter_eq_nil_iff.mpr]
  intro q hq
  simp only [List.all_eq_true]
  intro h
  have := h q hq
  rw [aB_self (hG q hq).1] at this
  cases this

example : collAntiCommutants [] (.other exG) = .ok [] := rfl

/-! ## `get_commutates` / `get_anti_commutates` -/

/-- `G.get_commutates(P, H)`: the members of the search list (`H`, or `G` itself for `None`) other
than `P` that commute with `P`, in order. -/
theorem C14Extra_commutates {n : Nat} {G : List PS} {p : PS} (hp : p.WF ∧ p.len = n) (H : Option (List PS))
    (hS : Uniform n (H.getD G)) :
    ∃ R, collCommutates G p H = .ok R ∧ R.Sublist (H.getD G) ∧
      ∀ q, q ∈ R ↔ (q ∈ H.getD G ∧ q ≠ p ∧ PS.commutesWith q p = .ok true) := by
  refine ⟨_, collCommutates_eq hS hp G H rfl, List.filter_sublist, fun q => ?_⟩
  rw [List.mem_filter]
  constructor
  · rintro ⟨hq, hb⟩
    simp only [Bool.and_eq_true, Bool.not_eq_true'] at hb
    refine ⟨hq, fun e => ?_, (cwB_iff q p).mp hb.2⟩
    subst e; simp [PS.beq] at hb
  · rintro ⟨hq, hne, hc⟩
    refine ⟨hq, ?_⟩
    have : q.beq p = false := by
      rw [Bool.eq_false_iff]; exact fun e => hne ((beq_iff_eq (hS q hq).1 hp.1).mp e)
    simp [this, (cwB_iff q p).mpr hc]

/-- `G.get_anti_commutates(P, H)`: the members of the search list other than `P` that anticommute with `P`. -/
theorem C14Extra_anticommutates {n : Nat} {G : List PS} {p : PS} (hp : p.WF ∧ p.len = n) (H : Option (List PS))
    (hS : Uniform n (H.getD G)) :
    ∃ R, collAntiCommutates G p H = .ok R ∧ R.Sublist (H.getD G) ∧
      ∀ q, q ∈ R ↔ (q ∈ H.getD G ∧ anti p q) := by
  refine ⟨_, collAntiCommutates_eq hS hp G H rfl, List.filter_sublist, fun q => ?_⟩
  rw [List.mem_filter]
  constructor
  · rintro ⟨hq, hb⟩
    simp only [Bool.and_eq_true] at hb
    exact ⟨hq, (aB_iff p q).mp hb.2⟩
  · rintro ⟨hq, ha⟩
    refine ⟨hq, ?_⟩
    have : q.beq p = false := by
      rw [Bool.eq_false_iff]
      intro e
      have := (beq_iff_eq (hS q hq).1 hp.1).mp e
      subst this
      exact not_anti_self hp.1 ha
    simp [this, (aB_iff p q).mpr ha]

example : collCommutates exG (PS.ofLetters [.X, .I]) none = .ok [PS.ofLetters [.I, .X]] := by decide
example : collAntiCommutates exG (PS.ofLetters [.X, .I]) none = .ok [PS.ofLetters [.Z, .I]] := by decide

/-! ## Frame potential -/

/-- the isolated vertices of the commutator graph are exactly the commutant (same list, same order):
a string has no incident edge iff it commutes with every member -/
theorem C14Extra_isolates {n : Nat} {G : List PS} (hG : Uniform n G) (hne : G ≠ []) :
    ∃ E L, getCommutatorGraph G = .ok (PS.genAll n, E) ∧ getCommutants G = .ok L ∧
      isolates (PS.genAll n) E = L ∧
      ∀ P, P ∈ isolates (PS.genAll n) E ↔ (P.WF ∧ P.len = n ∧ ∀ g ∈ G, PS.commutesWith g P = .ok true) := by
  obtain ⟨E, hE, _⟩ := C14_commutator_graph hG hne
  obtain ⟨L, hL, hmem, _⟩ := C14_commutants hG hne
  have hiso := isolates_eq hG hne hE
  have hLeq : L = (PS.genAll n).filter (fun p => G.all (fun g => cwB g p)) := by
    rw [getCommutants_eq hG hne] at hL; cases hL; rfl
  refine ⟨E, L, hE, hL, by rw [hiso, hLeq], fun P => ?_⟩
  rw [hiso, ← hLeq]; exact hmem P

/-- **`get_frame_potential()`** = (number of connected components of the commutator graph, as
characterised by `C14_components_partition` / `C14_components_connected`) × (number of isolated
vertices = size of the commutant). -/
theorem C14Extra_frame_potential {n : Nat} {G : List PS} (hG : Uniform n G) (hne : G ≠ []) :
    ∃ E L, getCommutatorGraph G = .ok (PS.genAll n, E) ∧ getCommutants G = .ok L ∧
      frameParts G = .ok ((components (PS.genAll n) E).length, L.length) ∧
      framePotential G = .ok ((components (PS.genAll n) E).length * L.length) ∧
      (components (PS.genAll n) E).length = (rawComps (PS.genAll n) E).length := by
  obtain ⟨E, L, hE, hL, hiso, _⟩ := C14Extra_isolates hG hne
  refine ⟨E, L, hE, hL, ?_, ?_, by rw [components_eq]; simp⟩
  · simp only [frameParts, hE, bind, Except.bind, pure, Except.pure, hiso]
  · simp only [framePotential, frameParts, hE, bind, Except.bind, pure, Except.pure, hiso]

/-- `X` on one qubit: commutator graph on `I, Z, X, Y` with the single edge `Z—Y`: two isolated
vertices (the commutant `{I, X}`) and three components (`components` sorts with a well-founded
merge sort the kernel does not unfold; `rawComps` is the same list before sorting) -/
example : (frameParts [PS.ofLetters [.X]]).map Prod.snd = .ok 2 := by decide
example : (rawComps (PS.genAll 1) [(PS.ofLetters [.Z], PS.ofLetters [.Y])]).length = 3 := by decide
example : (frameParts []).map Prod.snd = .ok 1 := by decide

/-! ## Charges -/

/-- **`non_commuting_charges(G)`**: exactly the members of the commutant that anticommute with
another member of the commutant, each once. -/
theorem C14Extra_charges {n : Nat} {G : List PS} (hG : Uniform n G) (hne : G ≠ []) :
    ∃ L R, getCommutants G = .ok L ∧ nonCommutingCharges G = .ok R ∧ R.Nodup ∧
      ∀ P, P ∈ R ↔ (P ∈ L ∧ ∃ Q ∈ L, anti P Q) := by
  obtain ⟨L, hL, hmem, _⟩ := C14_commutants hG hne
  have hU : Uniform n L := fun p hp => ⟨((hmem p).mp hp).1, ((hmem p).mp hp).2.1⟩
  obtain ⟨R, hR, hn, hm⟩ := chargesOf_spec hU
  exact ⟨L, R, hL, by simp only [nonCommutingCharges, hL, bind, Except.bind, hR], hn, hm⟩

/-- `ZZ` on two qubits: the commutant has 8 members; the 6 non-central ones are charges -/
example : (nonCommutingCharges [PS.ofLetters [.Z, .Z]]).map List.length = .ok 6 := by decide
example : nonCommutingCharges [] = .ok [] := by decide

end C14Extra
end PauLie
