import PauLieVerif.Model.PS
import PauLieVerif.Model.Parser
import PauLieVerif.Model.Proto
import PauLieVerif.Model.Matrix
import PauLieVerif.Model.CmdPS
import PauLieVerif.Generated.Tables
import PauLieVerif.Proofs.Tie
import PauLieVerif.Model.Closure
import PauLieVerif.Model.Graph
import PauLieVerif.Model.CmdGraph
import PauLieVerif.Spec.Clo
import PauLieVerif.Proofs.Closure
import PauLieVerif.Spec.PauliMatrix
import PauLieVerif.Proofs.C04Lemmas
import PauLieVerif.Properties.C04
import PauLieVerif.Proofs.C18Lemmas
import PauLieVerif.Properties.C18
-- import PauLieVerif.Proofs.C17Lemmas
-- import PauLieVerif.Properties.C17
