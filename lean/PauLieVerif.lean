import PauLieVerif.Model.PS
import PauLieVerif.Model.Parser
import PauLieVerif.Model.Proto
import PauLieVerif.Model.Matrix
import PauLieVerif.Model.CmdPS
import PauLieVerif.Generated.Tables
import PauLieVerif.Proofs.Tie
import PauLieVerif.Model.Closure
