#!/bin/sh
# tools/mkwork.sh <name>: private working copy of /verif (with build output) and of /repo for a builder sub-agent
set -e
W=/tmp/w_$1
rm -rf "$W"; mkdir -p "$W"
cp -r /verif "$W/verif"
rm -rf "$W/verif/.git"
git -C /repo worktree add --detach "$W/repo" HEAD >/dev/null 2>&1
echo "$W"
