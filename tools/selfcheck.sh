#!/bin/sh
# runs every claimed quick check (or those named) on the current tree and validates the evidence files
cd "$(dirname "$0")/.."
IDS="$@"
[ -z "$IDS" ] && IDS=$(python3 -c "import json;print(' '.join(c['property_id'] for c in json.load(open('MANIFEST.json'))['checks']))")
TIER=${VERIF_TIER:-quick}
for c in $IDS; do
  s=$(date +%s)
  ./check $c --tier $TIER > /tmp/selfcheck_$c.log 2>&1; rc=$?
  e=$(date +%s)
  echo "$c rc=$rc $((e-s))s $(grep -c VIOLATION /tmp/selfcheck_$c.log) violations $(grep -c KNOWN-FINDING /tmp/selfcheck_$c.log) known"
  grep -E 'VIOLATION|KNOWN-FINDING|Traceback|Error' /tmp/selfcheck_$c.log | head -5
done
python3-vt - <<PY 2>&1 | grep -v WARNING
import json,jsonschema,sys
S=json.load(open('/root/.vp/EVIDENCE.schema.json'))
for c in "$IDS".split():
    try:
        jsonschema.validate(json.load(open(f'evidence/{c}.json')),S)
    except Exception as e:
        print('EVIDENCE INVALID',c,str(e)[:300])
print('evidence validated')
PY
