#!/bin/sh
# tools/run_seeds.sh [ids...] : re-runs every stored seeded change against the quick check of its property
# (in a scratch worktree of /repo via PAULIE_REPO, so /repo itself stays untouched); prints caught / MISSED
cd "$(dirname "$0")/.."
IDS="$@"; [ -z "$IDS" ] && IDS=$(ls seeded)
W=${RS_W:-/tmp/rs_worktree}
for id in $IDS; do
  P=$(python3 -c "import json;print(json.load(open('seeded/$id/meta.json'))['property'])")
  rm -rf $W; git -C /repo worktree prune; git -C /repo worktree add --detach $W HEAD >/dev/null 2>&1
  if ! git -C $W apply /verif/seeded/$id/patch.diff 2>/dev/null; then echo "$id: patch does not apply to HEAD"; git -C /repo worktree remove --force $W; continue; fi
  PAULIE_REPO=$W ./check $P --tier quick > /tmp/rs_$id.log 2>&1; rc=$?
  if [ $rc -eq 1 ] && grep -q "VIOLATION property=$P" /tmp/rs_$id.log; then echo "$id: caught by $P ($(grep -m1 VIOLATION /tmp/rs_$id.log | cut -c1-160))"; C=true; else echo "$id: MISSED by $P (rc=$rc)"; C=false; fi
  python3 - "seeded/$id/meta.json" "$C" "$rc" "$(grep -m1 VIOLATION /tmp/rs_$id.log | cut -c1-300)" <<'PY'
import json,sys
p,c,rc,line=sys.argv[1:5]
m=json.load(open(p)); m["regression_at_head"]={"caught_by_quick_check_of_its_property":c=="true","exit_code":int(rc),"first_violation_line":line}
json.dump(m,open(p,"w"),indent=1)
PY
  git -C /repo worktree remove --force $W
done
# restore evidence of the unchanged tree for the properties touched
[ -n "$RS_NOCLEAN" ] && exit 0
for P in $(for id in $IDS; do python3 -c "import json;print(json.load(open('seeded/$id/meta.json'))['property'])"; done | sort -u); do ./check $P --tier quick >/dev/null 2>&1 || echo "clean tree: $P rc=$?"; done
