#!/bin/sh
# runs every quick check twice with the same seed and compares what the two runs covered (a generator or oracle that depends on
# set iteration order / object identity would make a seed irreproducible)
cd "$(dirname "$0")/.."
S=${1:-1}
for c in $(python3 -c "import json;print(' '.join(c['property_id'] for c in json.load(open('MANIFEST.json'))['checks']))"); do
  VERIF_SEED=$S ./check $c --tier quick >/dev/null 2>&1; r1=$?; cp evidence/$c.json /tmp/det_a_$c.json
  VERIF_SEED=$S ./check $c --tier quick >/dev/null 2>&1; r2=$?
  python3 - $c $r1 $r2 <<'PY'
import json,sys
c,r1,r2=sys.argv[1:4]
a=json.load(open(f'/tmp/det_a_{c}.json'))['coverage']; b=json.load(open(f'evidence/{c}.json'))['coverage']
keys=['evaluations','distinct_nontrivial','branches','known_finding_cases']
diff=[k for k in keys if a.get(k)!=b.get(k)]
sd=[k for k in a.get('streams',{}) if a['streams'][k].get('cases')!=b.get('streams',{}).get(k,{}).get('cases')]
print(c, 'rc',r1,r2, 'SAME' if not diff and not sd else f'DIFFERENT {diff} {sd}')
PY
done
