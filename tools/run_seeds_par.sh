#!/bin/sh
# tools/run_seeds_par.sh [K] : regression of ALL stored seeded changes with K parallel workers, each in a private copy of /verif
# (tools/mkwork.sh) and its own scratch worktree of /repo; results are merged into seeded/*/meta.json (regression_at_head)
cd "$(dirname "$0")/.."
K=${1:-4}
ls seeded > /tmp/rs_par_ids.txt
i=0
while [ $i -lt $K ]; do
  awk -v k=$K -v i=$i 'NR % k == i' /tmp/rs_par_ids.txt > /tmp/rs_par_$i.txt
  tools/mkwork.sh rs$i >/dev/null 2>&1
  ( cd /tmp/w_rs$i/verif && RS_W=/tmp/rs_worktree_$i RS_NOCLEAN=1 PAULIE_REPO_UNUSED=1 tools/run_seeds.sh $(cat /tmp/rs_par_$i.txt | tr '\n' ' ') > /tmp/rs_par_$i.log 2>&1 ) &
  i=$((i+1))
done
wait
cat /tmp/rs_par_*.log | grep -v WARNING | sort > /tmp/rs_par_all.log
i=0
while [ $i -lt $K ]; do
  for id in $(cat /tmp/rs_par_$i.txt); do cp /tmp/w_rs$i/verif/seeded/$id/meta.json seeded/$id/meta.json 2>/dev/null; done
  git -C /repo worktree remove --force /tmp/w_rs$i/repo 2>/dev/null; rm -rf /tmp/w_rs$i
  i=$((i+1))
done
git -C /repo worktree prune
echo "caught: $(grep -c 'caught by' /tmp/rs_par_all.log)  missed: $(grep -c MISSED /tmp/rs_par_all.log)"
grep MISSED /tmp/rs_par_all.log
