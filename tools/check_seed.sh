#!/bin/sh
# tools/check_seed.sh <seed worktree> <k> <property> <seeded-id> [extra check ids...]
# phase 2 of try_seed.sh, after tools/confirm_seed.sh: applies the change to /repo, runs the registered quick check(s), undoes it,
# stores everything under /verif/seeded/<seeded-id>/
T=$1; K=$2; P=$3; ID=$4; shift 4; EXTRA="$@"
D=$T/out/$K
OUT=/verif/seeded/$ID
mkdir -p $OUT
cp $D/patch.diff $D/demo.py $D/demo_clean.log $D/demo_patched.log $OUT/ 2>/dev/null
read RC_CLEAN RC_PATCHED RC_TEST REST < $D/confirm.txt
echo "demo clean rc=$RC_CLEAN patched rc=$RC_PATCHED pytest rc=$RC_TEST ($REST)"
cd /verif
git -C /repo apply $D/patch.diff || { echo "patch does not apply to /repo"; exit 2; }
RES=""
for c in $P $EXTRA; do
  cp evidence/$c.json /tmp/ev_keep_$c.json 2>/dev/null
  ./check $c --tier quick > $OUT/check_$c.log 2>&1; rc=$?
  cp /tmp/ev_keep_$c.json evidence/$c.json 2>/dev/null   # the committed evidence must describe the UNCHANGED tree
  v=$(grep -m1 VIOLATION $OUT/check_$c.log | cut -c1-300)
  echo "check $c rc=$rc $v"
  RES="$RES $c:rc=$rc"
  for r in $(grep -o 'replay=[^ ]*' $OUT/check_$c.log | cut -d= -f2 | head -2); do cp $r $OUT/ 2>/dev/null; done
done
git -C /repo checkout -q -- .
git -C /repo status --short | head -3
git -C /verif checkout -q -- lean/PauLieVerif/Generated/Tables.lean 2>/dev/null
python3 - "$D/meta.json" "$OUT/meta.json" "$P" "$RC_CLEAN" "$RC_PATCHED" "$RC_TEST" "$RES" <<'PY'
import json,sys
src,dst,p,rc,rp,rt,res=sys.argv[1:8]
try: m=json.load(open(src))
except Exception: m={}
m.update({"property":p,"confirmed":{"demo_exit_unmodified":int(rc),"demo_exit_with_change":int(rp),"pytest_exit_with_change":int(rt)},
          "checks_run":res.strip().split(),"how":"tools/confirm_seed.sh (demo + full pytest in a scratch worktree) then tools/check_seed.sh: git -C /repo apply; ./check <id> --tier quick; git -C /repo checkout -- ."})
json.dump(m,open(dst,"w"),indent=1)
PY
