"""Driver for extra stream files that are not yet wired into a property check:

    PAULIE_REPO=... /venv/bin/python tools/run_extra.py c01_names C01 [--tier quick|thorough] [--no-audit]

runs `prepare` (build, hygiene, axiom audit of EXTRA_THEOREMS) and `engine.run_streams` on
`props.<module>.extra_streams(rng, tier)`; prints VIOLATION / KNOWN-FINDING lines like a check and
writes evidence/<PID>x_<module>.json.  Exit code 0/1 like a check."""
from __future__ import annotations
import importlib, os, random, sys
sys.path.insert(0, os.path.join(os.path.dirname(os.path.dirname(os.path.abspath(__file__))), "harness"))
os.environ.setdefault("PYTHONHASHSEED", "0")
from common import *
from engine import *

def main():
    a = sys.argv[1:]
    modname, pid = a[0], a[1]
    tier = a[a.index("--tier") + 1] if "--tier" in a else "quick"
    mod = importlib.import_module(f"props.{modname}")
    res = Result(pid, tier, "other")
    res.pid = pid
    if "--no-audit" in a:
        broken = []
    else:
        broken, info = prepare(res, mod.EXTRA_THEOREMS, mod.EXTRA_IMPORTS)
        for b in broken:
            print("BROKEN:", b[0], b[1][:2000])
    rng = random.Random(seed() * 1000003 + int(pid[1:]) + 7919)
    streams = mod.extra_streams(rng, tier)
    run_streams(res, streams, broken, getattr(mod, "known_match", None))
    for name, st in res.cov["streams"].items():
        print(f"  {name}: {st}")
    print("  branches:", dict(sorted(res.cov.get("branches", {}).items())))
    # evidence under a name of its own, so that the property's evidence file is not overwritten
    res.pid = f"{pid}x_{modname}"
    rc = res.finish()
    print("exit", rc, "distinct non-trivial", res.cov["distinct_nontrivial"], "wall", round(time.time() - res.t0, 1))
    return rc

if __name__ == "__main__":
    rc = main()
    sys.stdout.flush()
    os._exit(rc)
