#!/bin/sh
# tools/integrate.sh <name> : copy files that are NEW in /tmp/w_<name>/verif into /verif; list files that differ (to merge by hand)
W=/tmp/w_$1/verif
cd $W && find . -type f \( -path './lean/.lake' -o -path './.git' \) -prune -o -type f -print | grep -v '/.lake/\|__pycache__\|^./replay/\|^./evidence/\|\.pyc$\|lake-manifest\|\.lock$' | while read f; do
  if [ ! -e "/verif/$f" ]; then mkdir -p "/verif/$(dirname $f)"; cp "$f" "/verif/$f"; echo "NEW  $f";
  elif ! cmp -s "$f" "/verif/$f"; then echo "DIFF $f"; fi
done
