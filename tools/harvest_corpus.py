#!/usr/bin/env python3
"""tools/harvest_corpus.py : collects the (shrunk and original) failing lines of every stored seeded change
(seeded/*/Cxx_*.json, written by the checks when they caught the change) into corpus_regress/<pid>.jsonl.
engine.standard_main puts these lines at the head of the stream they came from, so that a change that was caught once
is caught deterministically afterwards (minimised past failures run first)."""
import glob, json, os, collections
root = os.path.join(os.path.dirname(os.path.abspath(__file__)), "..")
acc = collections.defaultdict(dict)
for f in sorted(glob.glob(os.path.join(root, "seeded", "*", "C*_*.json"))):
    try:
        r = json.load(open(f))
    except Exception:
        continue
    pid, st = r.get("property"), r.get("stream")
    if not pid or not st or "@after-in-place" in st:
        continue
    for key in ("line", "original_line"):
        l = r.get(key)
        if l and len(l) < 4000:
            acc[pid].setdefault((st, l), os.path.basename(os.path.dirname(f)))
for pid, d in acc.items():
    with open(os.path.join(root, "corpus_regress", f"{pid}.jsonl"), "w") as out:
        for (st, l), src in sorted(d.items()):
            out.write(json.dumps({"stream": st, "line": l, "from": src}) + "\n")
    print(pid, len(d))
