#!/bin/sh
# tools/confirm_seed.sh <seed worktree> <k>: phase 1 of try_seed.sh alone (can run in parallel for several worktrees):
# demo on the unmodified tree, demo + full pytest with the change; results in <worktree>/out/<k>/confirm.txt
T=$1; K=$2; D=$T/out/$K
cd $T && git checkout -q -- . &&
PYTHONPATH=$T/src /venv/bin/python $D/demo.py > $D/demo_clean.log 2>&1; RC_CLEAN=$?
git apply $D/patch.diff || { echo "patch does not apply"; exit 2; }
PYTHONPATH=$T/src /venv/bin/python $D/demo.py > $D/demo_patched.log 2>&1; RC_PATCHED=$?
/venv/bin/python -m pytest -q -p no:cacheprovider --timeout=900 -x > $D/pytest_patched.log 2>&1; RC_TEST=$?
git checkout -q -- .
echo "$RC_CLEAN $RC_PATCHED $RC_TEST $(tail -1 $D/pytest_patched.log)" > $D/confirm.txt
cat $D/confirm.txt
